#!/usr/bin/env python3
"""Writes /verif/MANIFEST.json from the table below (kept next to the checks so they stay in step)."""
import json, subprocess

claimed = {
 "C01": ("exploration", "fs-history", "7.1", "Seeded simulated histories (interleaved open/seek/read/write/flush/close over up to MAX_FILES files and up to 3 volumes, three API flavours incl. embedded-io) run against the real library on a simulated block device in lock-step with a byte-array reference model; every read, length, offset, EOF and seek result is compared (through the embedded-io adapter also SeekFrom::End(+n) and positions / moves of 2^32 and more, and writes of a one and then zeros); one case in 64 is a huge-file history (2 GiB .. 4 GiB-1 file, offsets across 2^31 and the size limit; model = formatted medium + overlay of written blocks). Sampling of histories and geometries, not enumeration."),
 "C02": ("exploration", "fs-history", "7.2", "Seeded histories with a moving simulated clock; at quiescent points and at the end the raw medium is read by an independent FAT reader and by a fresh mount of the library and compared with the model (names, kinds, sizes, contents, ctime, mtime, untouched entries/chains byte for byte)."),
 "C03": ("exploration", "fs-history", "7.3", "Independent fsck over the raw medium after every API call that wrote (success or error), including the pending chains/sizes of open files; workload biased to volumes with 0..64 free clusters and small FAT16 roots."),
 "C04": ("exploration", "fs-history", "7.4", "Monitor on every BlockDevice::write with its pre-image: region classification from the independent geometry, byte diff confined to the call's file range / newly allocated clusters / owned directory slot / FAT entries of its chains; refused and read-only calls must not change a byte. One case in 16 goes to the mount engine: a FAT32 medium whose information sector (or BPB_FSInfo) is damaged; if it mounts, creating and writing a file may write only FAT blocks, the root directory, clusters that were free and the formatter's information sector."),
 "C05": ("exploration", "fs-history", "7.5", "Ground-truth FAT scan vs. reachable set after every writing call (leaks reported when they grow), and a capacity oracle: a call must succeed when the needed clusters are free and report out-of-space when they are not; fill/delete/refill arises from the Space-biased workload. One case in 256 deletes a file of 32768..262144 clusters (huge-file engine): every cluster must be free afterwards."),
 "C06": ("exploration", "fs-history", "7.6", "Every iterate_dir / find_directory_entry / open_dir result in simulated histories over formatter-built trees (LFN runs, deleted slots, multi-cluster and fragmented directories, FAT16 roots of 16..512 entries, FAT32 roots anywhere) is compared entry by entry with the independent reader's view of the same medium and, by name, with what the history made (model); half of the cases are generated / corrupted directory media (dir-media engine). In one directory-media case in four the directory is first listed while the device serves an older state of the medium, then the current state appears and the caller goes through VolumeManager::device(): every answer must come from the medium."),
 "C07": ("exploration", "fs-history", "7.7", "Mode matrix model: for every open/delete/mkdir/open_dir the set of acceptable results is computed from the model state (missing, file, read-only file, directory, already open, invalid 8.3 name); a refused call must leave the medium byte-identical. One case in 64 has two directory entries exactly 4 GiB apart with the file of one of them open: the other file must open and delete (huge-file engine)."),
 "C08": ("exploration", "fs-history", "7.8", "Handle-table model over 16 compiled limit configurations covering 1..8 of each kind, id counters that wrap inside the run, bursts of up to 70000 handle generations with objects held open, stale-handle use of every handle-taking method, and every Result-returning public method called re-entrantly from directory callbacks."),
 "C16": ("exploration", "fs-history", "7.16", "After every call the FAT sectors written are compared across copies; after flush/close of a written file and after close_volume the stored FSInfo free count must have moved by exactly the ground-truth change since mount; volumes start with correct, unknown, stale-low, zero, stale-high and bad-hint records."),
}

na = {
 "C18": "pure codecs (directory entry, timestamp, 8.3 name): no schedule, clock, fault, crash point or interleaving in the quantifier; deciding it is input enumeration, not simulation (DESIGN.md 7.18)",
 "C19": "CRC-7/CRC-16 are pure functions of a byte string; the quantifier is 'all messages' (DESIGN.md 7.19)",
}
pending = {
 "C09": "check under construction in this round (crash-point enumeration engine); not claimed until it runs",
 "C10": "check under construction in this round (crash-point enumeration engine); not claimed until it runs",
 "C11": "check under construction in this round (device-fault enumeration engine); not claimed until it runs",
 "C12": "check under construction in this round (sd-sim); not claimed until it runs",
 "C13": "check under construction in this round (sd-sim); not claimed until it runs",
 "C14": "check under construction in this round (sd-sim); not claimed until it runs",
 "C15": "check under construction in this round (mount corruption engine); not claimed until it runs",
 "C17": "check under construction in this round (LFN media engine); not claimed until it runs",
}
import os, sys
sys.path.insert(0, os.path.dirname(__file__))
EXTRA_ENGINES = []
try:
    from manifest_extra import extra_claimed
    claimed.update(extra_claimed)
    for k in extra_claimed: pending.pop(k, None)
except ImportError:
    pass

checks = []
for pid in sorted(claimed):
    level, engine, ref, text = claimed[pid]
    checks.append({
        "property_id": pid,
        "quick_cmd": f"./check {pid} quick",
        "thorough_cmd": f"./check {pid} thorough",
        "evidence_file": f"/verif/evidence/{pid}.json",
        "replay_cmd_template": "./check --replay {path}",
        "engine": engine,
        "technique": "deterministic simulation with fault injection: seeded simulated runs of the real library on simulated device/clock/bus against a reference model and an independent reader",
        "level_claimed": {"category": level, "text": text, "design_ref": f"DESIGN.md section {ref}"},
        "level_note": "Trusted base: the simulator's independent formatter, FAT reader/fsck, reference model and card model (written from the FAT and SD specifications, cross-checked by `sdmmc-sim selftest`); block writes atomic and ordered. Histories/geometries/timings are sampled with a PRNG seeded from VERIF_SEED; fault and crash points are enumerated per history where the level says fault_enumeration.",
    })
m = {
 "version": 1,
 "setup_cmd": "cd /verif/sim && CARGO_NET_OFFLINE=true cargo build --release --offline",
 "hooks": {
   "guard": "embedded_sdmmc_verif",
   "enable": "none needed: every seam is a trait the library already takes (BlockDevice, TimeSource, SpiDevice, DelayNs); the guard name is reserved and unused",
   "baseline_off_cmd": "cd /repo && cargo test --workspace --no-fail-fast --offline",
   "source_commits": [],
   "add_only": True,
 },
 "engines": [
   {"name": "fs-history", "path": "/verif/sim", "serves_properties": ["C01","C02","C03","C04","C05","C06","C07","C08","C16"], "kind_free_text": "seeded deterministic simulation of API histories on SimDisk/SimClock with reference model, independent reader and write-log monitors"},
   {"name": "fs-huge", "path": "/verif/sim", "serves_properties": ["C01","C05","C07"], "kind_free_text": "seeded histories on one 2 GiB .. 4 GiB-1 file (sparse medium + overlay model): one C01 case in 64; one C07 case in 64 (two directory entries 4 GiB apart); one C05 case in 256 (the file is deleted at the end)"},
   {"name": "fs-crash", "path": "/verif/sim", "serves_properties": ["C09","C10"], "kind_free_text": "write-log prefix (power-cut) enumeration over simulated histories"},
   {"name": "fs-fault", "path": "/verif/sim", "serves_properties": ["C11"], "kind_free_text": "per-device-call fault enumeration over simulated histories"},
   {"name": "dir-media", "path": "/verif/sim", "serves_properties": ["C06","C17"], "kind_free_text": "generated / corrupted directory media read through the block-device seam"},
   {"name": "mount", "path": "/verif/sim", "serves_properties": ["C15","C04"], "kind_free_text": "independent formatter geometries and stored-byte corruption of MBR / boot sector / FSInfo at mount, medium exchange before the mount; one C04 case in 16: writing after a mount with a damaged information sector"},
]+[{"name": "sd-sim", "path": "/verif/sim", "serves_properties": ["C12","C13","C14"], "kind_free_text": "real SdCard driver against a byte-level simulated SD card on a simulated SPI bus with latency tape, adversary and protocol checker"},
 ] + EXTRA_ENGINES,
 "checks": checks,
 "not_applicable": [{"property_id": k, "reason": v} for k, v in sorted({**na, **pending}.items())],
 "notes": "All checks: ./check <ID> quick|thorough; VERIF_SEED (default 1), VERIF_JOBS (default 16), VERIF_RUNS, VERIF_BUDGET_S. Exit 0 held / 1 VIOLATION / 2 harness error. Known findings: /verif/known_findings.jsonl.",
}
json.dump(m, open("/verif/MANIFEST.json", "w"), indent=1)
print("wrote MANIFEST.json with", len(checks), "checks")
