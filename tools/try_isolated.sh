#!/bin/bash
# try_isolated.sh <seeded-key> <prop> [<prop>...]: like try_mutant.sh but in an isolated copy of /repo and /verif/sim
# (does not touch /repo, so it can run while other checks are running)
KEY="$1"; shift
D=$(mktemp -d /tmp/matrixT.XXXX)
MATRIX_DIR=$D MUTANTS="$KEY" PROPS="$*" "$(dirname "$0")/matrix.sh" $D/result.tsv >/dev/null 2>&1
tr '\t' '\n' < $D/result.tsv | grep -v "^done"
rm -rf $D
