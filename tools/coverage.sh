#!/bin/bash
# coverage.sh [runs-per-check]: which lines of /repo/src the checks execute. Builds an instrumented copy of the simulator
# with the nightly toolchain (llvm-tools) in a scratch directory, runs every check with a reduced number of cases,
# prints llvm-cov's per-file report and the functions never entered, and removes the scratch directory.
RUNS="${1:-3000}"
W=$(mktemp -d /tmp/verif-cov.XXXX)
B=$(dirname "$(rustc +nightly --print target-libdir)")/bin
cd "$(dirname "$0")/../sim" || exit 2
CARGO_NET_OFFLINE=true RUSTFLAGS="-C instrument-coverage" CARGO_TARGET_DIR=$W/target cargo +nightly build --release --offline >/dev/null 2>&1 || { echo "instrumented build failed"; rm -rf $W; exit 2; }
for P in C01 C02 C03 C04 C05 C06 C07 C08 C09 C10 C11 C12 C13 C14 C15 C16 C17; do
  LLVM_PROFILE_FILE=$W/$P-%p.profraw VERIF_JOBS=4 VERIF_RUNS=$RUNS VERIF_EVIDENCE_DIR=$W/ev VERIF_REPLAY_DIR=$W/rp $W/target/release/sdmmc-sim check $P quick >/dev/null 2>&1
done
$B/llvm-profdata merge -sparse $W/*.profraw -o $W/all.profdata
echo "file                          regions   missed    cover      lines   missed    cover"
$B/llvm-cov report $W/target/release/sdmmc-sim -instr-profile=$W/all.profdata /repo/src 2>/dev/null | grep -E "\.rs|^TOTAL" | awk '{printf "%-28s %8s %8s %8s   %8s %8s %8s\n", $1, $2, $3, $4, $8, $9, $10}'
echo; echo "lines never executed (formatting impls and constructors included):"
for f in volume_mgr.rs fat/volume.rs fat/bpb.rs fat/info.rs filesystem/files.rs filesystem/directory.rs filesystem/filename.rs sdcard/mod.rs blockdevice.rs; do
  echo "== $f"
  $B/llvm-cov show $W/target/release/sdmmc-sim -instr-profile=$W/all.profdata /repo/src/$f 2>/dev/null | grep -E "^ +[0-9]+\| +0\|" | cut -c1-140
done
rm -rf $W
