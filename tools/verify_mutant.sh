#!/bin/bash
# verify_mutant.sh <worktree> <mutant-dir>: existing suite passes with the patch, demo fails with it, demo passes without.
WT="$1"; M="$2"
cd "$WT" || exit 2
git checkout -q -- . ; git clean -fdq -e target
OUT="$M/verify.txt"; : > "$OUT"
cp "$M/demo.rs" tests/zz_demo.rs
echo "== demo without patch" >> "$OUT"
if cargo test --offline --test zz_demo >> "$OUT.log1" 2>&1; then echo "demo_without_patch=PASS" >> "$OUT"; else echo "demo_without_patch=FAIL" >> "$OUT"; fi
if ! git apply "$M/patch.diff" 2>> "$OUT"; then echo "apply=FAIL" >> "$OUT"; git checkout -q -- .; rm -f tests/zz_demo.rs; exit 1; fi
echo "apply=OK" >> "$OUT"
if cargo test --offline --test zz_demo >> "$OUT.log2" 2>&1; then echo "demo_with_patch=PASS" >> "$OUT"; else echo "demo_with_patch=FAIL" >> "$OUT"; fi
rm -f tests/zz_demo.rs
if cargo test --offline --workspace --no-fail-fast >> "$OUT.log3" 2>&1; then echo "suite_with_patch=PASS" >> "$OUT"; else echo "suite_with_patch=FAIL" >> "$OUT"; fi
git checkout -q -- . ; git clean -fdq -e target
cat "$OUT"
