#!/bin/bash
# run_all.sh [quick|thorough]: every claimed check in turn; prints one line per property; exit 1 if any violation, 2 if any harness error
cd "$(dirname "$0")/.."
TIER="${1:-quick}"
RC=0
for P in $(python3 -c "import json;print(' '.join(c['property_id'] for c in json.load(open('MANIFEST.json'))['checks']))"); do
  OUT=$(./check $P $TIER 2>&1); R=$?
  echo "$P rc=$R $(echo "$OUT" | grep -E '^runs=' | tail -1) $(echo "$OUT" | grep -E '^VIOLATION|^KNOWN-FINDING' | cut -c1-120 | tr '\n' ' ')"
  if [ $R -eq 1 ] && [ $RC -lt 1 ]; then RC=1; fi
  if [ $R -ge 2 ]; then RC=2; fi
done
exit $RC
