#!/bin/bash
# run_order.sh <tier> <ID>...: like run_all.sh for the checks named, in the order given
cd "$(dirname "$0")/.."
TIER="${1:-quick}"; shift
RC=0
for P in "$@"; do
  OUT=$(./check $P $TIER 2>&1); R=$?
  echo "$P rc=$R $(echo "$OUT" | grep -E '^runs=' | tail -1) $(echo "$OUT" | grep -E '^VIOLATION|^KNOWN-FINDING' | cut -c1-160 | tr '\n' ' ')"
  if [ $R -eq 1 ] && [ $RC -lt 1 ]; then RC=1; fi
  if [ $R -ge 2 ]; then RC=2; fi
done
exit $RC
