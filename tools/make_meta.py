#!/usr/bin/env python3
"""Writes seeded/<id>/<m>/meta.json from the matrix result (tools/matrix.sh) and the verification logs."""
import json, os, sys, re
res = {}
for path in sys.argv[1:]:
    for line in open(path):
        parts = line.rstrip("\n").split("\t")
        if len(parts) < 3: continue
        m = parts[0]
        res.setdefault(m, {})
        for cell in parts[1:]:
            mm = re.match(r"(C\d+)=(\d+):(.*)", cell)
            if mm:
                res[m][mm.group(1)] = (int(mm.group(2)), mm.group(3))
root = "/verif/seeded"
rows = []
for pid in sorted(os.listdir(root)):
    for m in sorted(os.listdir(os.path.join(root, pid))):
        d = os.path.join(root, pid, m)
        key = f"{pid}/{m}"
        notes = open(os.path.join(d, "notes.md")).read() if os.path.exists(os.path.join(d, "notes.md")) else ""
        verify = open(os.path.join(d, "verify.txt")).read() if os.path.exists(os.path.join(d, "verify.txt")) else ""
        r = res.get(key, {})
        detected = {p: sig for p, (rc, sig) in r.items() if rc == 1}
        harness = [p for p, (rc, sig) in r.items() if rc not in (0, 1)]
        first_para = next((l.strip() for l in notes.splitlines() if l.strip() and not l.startswith("#")), "")
        meta = {
            "breaks_property": pid.replace("R2", ""),
            "origin": "written by an independent sub-agent that was given only the property text and a scratch worktree of /repo",
            "what_it_needs_to_manifest": first_para[:600],
            "confirmed_in_scratch_worktree": {l.split("=")[0]: l.split("=")[1] for l in verify.split() if "=" in l},
            "what_i_ran": "tools/verify_mutant.sh (suite passes with the patch, demo fails with it and passes without); tools/matrix.sh (every quick check against the patch in an isolated copy of /repo and /verif/sim)",
            "quick_checks_reporting_a_violation": detected,
            "own_property_check_detects": (pid.replace("R2", "") in detected) if r else None,
            "checks_with_harness_error": harness,
        }
        json.dump(meta, open(os.path.join(d, "meta.json"), "w"), indent=1)
        rows.append((key, meta["breaks_property"], sorted(detected)))
for k, p, d in rows:
    print(f"{k:10} own={'yes' if p in d else 'NO '}  caught by: {' '.join(d)}")
