#!/bin/bash
# Runs every check's quick batch (reduced run count) in separate processes with different worker counts and
# compares the batch event-log hash (order-independent merge => must be identical).
cd "$(dirname "$0")/.."
N="${1:-3000}"
BAD=0
for P in C01 C02 C03 C04 C05 C06 C07 C08 C09 C10 C11 C12 C13 C14 C15 C16 C17; do
  H=""
  for J in ${WORKERS:-16 3 16 7}; do
    D=/tmp/det-$$-$J; mkdir -p $D
    VERIF_RUNS=$N VERIF_JOBS=$J VERIF_EVIDENCE_DIR=$D VERIF_REPLAY_DIR=$D ./sim/target/release/sdmmc-sim check $P quick >/dev/null 2>&1
    X=$(python3 -c "import json;print(json.load(open('$D/$P.json'))['coverage']['batch_event_log_hash'])")
    H="$H $X"; rm -rf $D
  done
  U=$(echo $H | tr ' ' '\n' | sort -u | wc -l)
  if [ "$U" != "1" ]; then echo "NON-DETERMINISTIC $P: $H"; BAD=1; else echo "ok $P $(echo $H | cut -d' ' -f1) (separate processes with ${WORKERS:-16 3 16 7} workers, $N runs each)"; fi
done
exit $BAD
