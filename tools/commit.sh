#!/bin/bash
# commit.sh "<message>": run every quick check; commit /verif only when all of them exit 0
cd "$(dirname "$0")/.."
tools/run_all.sh quick > /tmp/run_all.last 2>&1; RC=$?
awk '{printf "%s %s  ", $1, $2} END {print ""}' /tmp/run_all.last
if [ $RC -ne 0 ]; then echo "NOT committed (run_all rc=$RC)"; grep -v "rc=0" /tmp/run_all.last; exit $RC; fi
git add -A && git commit -q -m "$1" && git log --oneline | head -1
