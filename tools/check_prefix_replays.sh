#!/bin/bash
# check_prefix_replays.sh: every replay file named by a "fixed" record of known_findings.jsonl must report its
# violation on the commit before the fix (the record's "fails on" commit, else the fix's parent) and must not on HEAD.
# Works in an isolated copy (worktree of /repo at the old commit + copy of the simulator); does not touch /repo.
cd "$(dirname "$0")/.."
W=$(mktemp -d /tmp/prefix.XXXX)
python3 - > $W/list.txt <<'PY'
import json,re
for l in open('known_findings.jsonl'):
    l=l.strip()
    if not l or l.startswith('#'): continue
    v=json.loads(l)
    if v.get('kind')!='fixed': continue
    files=re.findall(r"(findings/prefix-replays/[\w.-]+\.json)", v['what'])
    f=re.search(r"fails on ([0-9a-f]{7}(?:~1)?)", v['what'])
    pre=f.group(1) if f else v['commit']+"~1"
    for x in files: print(pre, x, v['property'], v['commit'])
PY
rsync -a --exclude target sim/ $W/sim/
sed -i "s#path = \"/repo\"#path = \"$W/repo\"#" $W/sim/Cargo.toml
BAD=0
for PRE in $(awk '{print $1}' $W/list.txt | sort -u) HEAD; do
  git -C /repo worktree remove --force $W/repo 2>/dev/null
  git -C /repo worktree add -q --detach $W/repo $PRE || { echo "cannot check out $PRE"; BAD=1; continue; }
  ( cd $W/sim && cargo build --release --offline >/dev/null 2>&1 ) || { echo "BUILD-FAILED at $PRE"; BAD=1; continue; }
  if [ "$PRE" = HEAD ]; then SEL=$(awk '{print $2}' $W/list.txt | sort -u); else SEL=$(awk -v p="$PRE" '$1==p {print $2}' $W/list.txt | sort -u); fi
  for F in $SEL; do
    $W/sim/target/release/sdmmc-sim replay $F >/dev/null 2>&1; RC=$?
    if [ "$PRE" = HEAD ]; then WANT=0; else WANT=1; fi
    # a replay that kills the process (stack overflow) counts as reproduced
    if [ "$PRE" != HEAD ] && [ $RC -gt 2 ]; then RC=1; fi
    if [ $RC -eq $WANT ]; then echo "ok   $PRE $F rc=$RC"; else echo "BAD  $PRE $F rc=$RC (wanted $WANT)"; BAD=1; fi
  done
done
git -C /repo worktree remove --force $W/repo 2>/dev/null
rm -rf $W
exit $BAD
