#!/bin/bash
# matrix.sh: run every quick check against every seeded mutant in an isolated copy (does not touch /repo).
# usage: tools/matrix.sh [out-file]      env: MUTANTS="C01/m1 ..." PROPS="C01 ..." TIER=quick
set -u
OUT="${1:-/tmp/matrix/result.tsv}"
W="${MATRIX_DIR:-/tmp/matrix}"
rm -rf $W/sim $W/out; mkdir -p $W/out
git -C /repo worktree remove --force $W/repo 2>/dev/null
git -C /repo worktree add -q $W/repo HEAD
rsync -a --exclude target /verif/sim/ $W/sim/
sed -i "s#path = \"/repo\"#path = \"$W/repo\"#" $W/sim/Cargo.toml
PROPS="${PROPS:-C01 C02 C03 C04 C05 C06 C07 C08 C09 C10 C11 C12 C13 C14 C15 C16 C17}"
MUTANTS="${MUTANTS:-$(cd /verif/seeded && find . -name patch.diff -printf '%h\n' | sed 's#^\./##' | sort | tr '\n' ' ')}"
: > "$OUT"
for M in $MUTANTS; do
  git -C $W/repo checkout -q -- .
  if ! git -C $W/repo apply /verif/seeded/$M/patch.diff; then echo -e "$M\tAPPLY-FAILED" >> "$OUT"; continue; fi
  ( cd $W/sim && cargo build --release --offline >/dev/null 2>&1 ) || { echo -e "$M\tBUILD-FAILED" >> "$OUT"; continue; }
  LINE="$M"
  # a change that touches only the SD driver cannot affect the file-system checks and vice versa
  # (C12 runs full-stack sessions, so it is always included)
  if grep -q "^+++ b/src/sdcard" /verif/seeded/$M/patch.diff && ! grep -q "^+++ b/src/\(fat\|filesystem\|volume_mgr\|blockdevice\|lib\)" /verif/seeded/$M/patch.diff; then
    MPROPS="C12 C13 C14"
  else
    MPROPS=$(echo $PROPS | sed 's/C13//; s/C14//')
  fi
  for P in $MPROPS; do
    R=$(cd $W/sim && VERIF_KNOWN=/verif/known_findings.jsonl VERIF_EVIDENCE_DIR=$W/out VERIF_REPLAY_DIR=$W/out timeout 900 ./target/release/sdmmc-sim check $P ${TIER:-quick} 2>&1)
    RC=$?
    SIG=$(echo "$R" | grep -E "^violation in" | head -1 | sed 's/^violation in run [0-9]*: //' | cut -d' ' -f1)
    # the simulator process was killed (stack overflow inside the library ...): ./check reports that as a VIOLATION
    # with a crash replay file (second pass with one worker); here it is recorded as detected
    if [ $RC -gt 2 ]; then SIG="process-killed-exit-$RC(./check-reports-VIOLATION)"; RC=1; fi
    LINE="$LINE\t$P=$RC:$SIG"
  done
  echo -e "$LINE" >> "$OUT"
done
git -C $W/repo checkout -q -- .
git -C /repo worktree remove --force $W/repo
rm -rf $W/sim
echo done >> "$OUT"
