#!/bin/bash
# try_mutant.sh <patch.diff> <prop> [<prop>...]: apply to /repo, run the quick checks, undo. Prints one line per check.
PATCH="$1"; shift
cd /verif
if ! git -C /repo diff --quiet; then echo "/repo not clean"; exit 2; fi
if ! git -C /repo apply "$PATCH"; then echo "apply failed"; exit 2; fi
mkdir -p /tmp/mutrun/replays /tmp/mutrun/evidence
for P in "$@"; do
  OUT=$(VERIF_REPLAY_DIR=/tmp/mutrun/replays VERIF_EVIDENCE_DIR=/tmp/mutrun/evidence timeout 900 ./check "$P" "${TIER:-quick}" 2>&1)
  RC=$?
  V=$(echo "$OUT" | grep -E "^violation in" | head -1 | cut -c1-220)
  echo "$P rc=$RC $V"
done
git -C /repo checkout -- .
