//! Model-free interpreter of a scenario's operation list against any `Fs`: used to run one and
//! the same history on two block devices (SimDisk and the SD driver on a simulated card) and
//! compare what the application sees and what reaches the medium.

use crate::clock::SimClock;
use crate::fs::{err_name, Fs, Name};
use crate::ops::Op;
use crate::rng::payload;
use embedded_sdmmc::{RawDirectory, RawFile, RawVolume};

fn cls<T>(r: &Result<T, crate::fs::LibErr>) -> String {
    match r {
        Ok(_) => "Ok".into(),
        Err(e) => err_name(e).into(),
    }
}

pub fn blind_exec(fs: &dyn Fs, ops: &[Op], clock: &SimClock, nslots: usize) -> Vec<String> {
    let mut vs: Vec<Option<RawVolume>> = vec![None; nslots];
    let mut ds: Vec<Option<RawDirectory>> = vec![None; nslots];
    let mut fsl: Vec<Option<RawFile>> = vec![None; nslots];
    let mut out = Vec::new();
    for op in ops {
        let r: Option<String> = match op.clone() {
            Op::Clock { secs } => {
                clock.set(secs);
                None
            }
            Op::OpenVolume { vs: s, idx, fl } => {
                if vs[s as usize].is_some() {
                    None
                } else {
                    let r = fs.open_volume(idx as usize, fl);
                    let c = cls(&r);
                    if let Ok(h) = r {
                        vs[s as usize] = Some(h);
                    }
                    Some(c)
                }
            }
            Op::CloseVolume { vs: s, fl } => vs[s as usize].map(|h| {
                let r = fs.close_volume(h, fl.min(1));
                if r.is_ok() {
                    vs[s as usize] = None;
                }
                cls(&r)
            }),
            Op::OpenRoot { vs: s, ds: d, fl } => match (vs[s as usize], ds[d as usize]) {
                (Some(h), None) => {
                    let r = fs.open_root_dir(h, fl);
                    let c = cls(&r);
                    if let Ok(x) = r {
                        ds[d as usize] = Some(x);
                    }
                    Some(c)
                }
                _ => None,
            },
            Op::OpenDir { ds: d, name, nds, fl } => match (ds[d as usize], ds[nds as usize]) {
                (Some(h), None) => {
                    let r = fs.open_dir(h, &Name::Str(name), fl);
                    let c = cls(&r);
                    if let Ok(x) = r {
                        ds[nds as usize] = Some(x);
                    }
                    Some(c)
                }
                _ => None,
            },
            Op::CloseDir { ds: d, fl } => ds[d as usize].map(|h| {
                let r = fs.close_dir(h, fl.min(1));
                if r.is_ok() {
                    ds[d as usize] = None;
                }
                cls(&r)
            }),
            Op::Find { ds: d, name, fl } => ds[d as usize].map(|h| {
                let r = fs.find(h, &Name::Str(name), fl);
                match &r {
                    Ok(e) => format!("Ok:{}:{:?}", e.size, e.cluster),
                    Err(_) => cls(&r),
                }
            }),
            Op::Iterate { ds: d, fl, .. } => ds[d as usize].map(|h| {
                let mut n = 0u32;
                let mut hsh = 0xcbf29ce484222325u64;
                let r = fs.iterate(h, fl, &mut |e| {
                    n += 1;
                    crate::rng::fnv_add(&mut hsh, format!("{:?}{}{:?}", e.name, e.size, e.mtime).as_bytes());
                });
                format!("{}:{}:{:x}", cls(&r), n, hsh)
            }),
            Op::OpenFile { ds: d, name, mode, fs: f, fl } => match (ds[d as usize], fsl[f as usize]) {
                (Some(h), None) => {
                    let r = fs.open_file(h, &Name::Str(name), crate::exec::mode_of(mode), fl);
                    let c = cls(&r);
                    if let Ok(x) = r {
                        fsl[f as usize] = Some(x);
                    }
                    Some(c)
                }
                _ => None,
            },
            Op::CloseFile { fs: f, fl } => fsl[f as usize].map(|h| {
                let r = fs.close_file(h, fl.min(1));
                fsl[f as usize] = None;
                cls(&r)
            }),
            Op::Flush { fs: f, fl } => fsl[f as usize].map(|h| cls(&fs.flush_file(h, fl))),
            Op::Read { fs: f, len, fl } => fsl[f as usize].map(|h| {
                let mut buf = vec![0u8; len as usize];
                let r = fs.read(h, &mut buf, fl);
                match &r {
                    Ok(n) => format!("Ok:{}:{:x}", n, crate::rng::fnv(&buf[..*n])),
                    Err(_) => cls(&r),
                }
            }),
            Op::Write { fs: f, len, seed, fl } => fsl[f as usize].map(|h| cls(&fs.write(h, &payload(seed, len as usize), fl))),
            Op::SeekStart { fs: f, off, fl } => fsl[f as usize].map(|h| cls(&fs.seek_start(h, off, fl))),
            Op::SeekCur { fs: f, delta, fl } => fsl[f as usize].map(|h| cls(&fs.seek_cur(h, delta, fl))),
            Op::SeekEnd { fs: f, back, fl } => fsl[f as usize].map(|h| cls(&fs.seek_end(h, back, fl))),
            Op::Query { fs: f, .. } => fsl[f as usize].map(|h| format!("{:?}:{:?}", fs.length(h, 0).ok(), fs.offset(h, 0).ok())),
            Op::Delete { ds: d, name, fl } => ds[d as usize].map(|h| cls(&fs.delete(h, &Name::Str(name), fl))),
            Op::MkDir { ds: d, name, fl } => ds[d as usize].map(|h| cls(&fs.make_dir(h, &Name::Str(name), fl))),
            _ => None,
        };
        if let Some(s) = r {
            out.push(format!("{}:{}", op.kind(), s));
        }
    }
    out
}
