//! Batch driver shared by all engines: seeded runs on worker threads (each run is
//! single-threaded and deterministic; results are merged in run-index order so the output
//! does not depend on the worker count), known-findings filter, replay files, evidence.

use crate::world::{Probes, Violation};
use serde_json::{json, Value};
use std::collections::{BTreeMap, BTreeSet};
use std::sync::atomic::{AtomicU64, Ordering};
use std::sync::Mutex;

#[derive(Default)]
pub struct CaseOutcome {
    pub viols: Vec<Violation>,
    pub probes: Probes,
    pub ev_hash: u64,
    /// non-trivial by the engine's rule
    pub nontrivial: bool,
    /// units of exploration inside this case (1 for a plain run; crash points / fault points otherwise)
    pub evaluations: u64,
    pub sim_seconds: u64,
    pub faults: BTreeMap<String, u64>,
    pub states: Vec<u64>,
    pub api_calls: u64,
    pub dev_calls: u64,
    pub foreign_abort: bool,
    /// the case written out (scenario), for samples and replay
    pub case: Value,
}

pub struct Known {
    pub findings: Vec<(String, String, String)>, // (property, signature-prefix, what)
}

impl Known {
    pub fn load() -> Known {
        let mut findings = Vec::new();
        let path = std::env::var("VERIF_KNOWN").unwrap_or_else(|_| "/verif/known_findings.jsonl".to_string());
        if let Ok(s) = std::fs::read_to_string(&path) {
            for line in s.lines() {
                let line = line.trim();
                if line.is_empty() || line.starts_with('#') {
                    continue;
                }
                if let Ok(v) = serde_json::from_str::<Value>(line) {
                    if v["kind"] == "finding" {
                        findings.push((v["property"].as_str().unwrap_or("").to_string(), v["signature"].as_str().unwrap_or("").to_string(), v["what"].as_str().unwrap_or("").to_string()));
                    }
                }
            }
        }
        Known { findings }
    }
    pub fn matches(&self, v: &Violation) -> Option<&(String, String, String)> {
        let sig = v.signature();
        self.findings.iter().find(|(p, s, _)| p == v.prop && &sig == s)
    }
}

pub struct BatchCfg {
    pub prop: &'static str,
    pub tier: String,
    pub seed: u64,
    pub runs: u64,
    pub jobs: usize,
    pub budget_s: f64,
    pub level: &'static str,
    pub rule: String,
    pub engine: &'static str,
    pub components: Value,
    pub assumptions: Vec<String>,
    pub extra: Value,
}

pub struct BatchResult {
    pub first_violation: Option<(u64, Violation, Value)>,
    pub known_hits: BTreeMap<String, (u64, String)>,
    pub evidence: Value,
    pub all_viol_sigs: BTreeMap<String, u64>,
}

pub fn env_u64(k: &str, d: u64) -> u64 {
    std::env::var(k).ok().and_then(|s| s.parse().ok()).unwrap_or(d)
}

/// Everything a batch accumulates. Results are folded in run-index order as soon as the next index is
/// available (streaming merge), so memory stays bounded by the out-of-order window and the outcome does not
/// depend on the worker count: the fold covers the longest gap-free prefix and stops at the first violation.
struct Acc {
    expect: u64,
    pending: BTreeMap<u64, CaseOutcome>,
    done: bool,
    evaluations: u64,
    cases: u64,
    distinct: BTreeSet<u64>,
    probes: Probes,
    faults: BTreeMap<String, u64>,
    states: BTreeSet<u64>,
    sim_seconds: u64,
    api_calls: u64,
    dev_calls: u64,
    foreign_aborts: u64,
    samples: Vec<Value>,
    first_case: Option<Value>,
    first_violation: Option<(u64, Violation, Value)>,
    known_hits: BTreeMap<String, (u64, String)>,
    all_viol_sigs: BTreeMap<String, u64>,
    foreign_sigs: BTreeMap<String, u64>,
    batch_hash: u64,
}

impl Acc {
    fn fold(&mut self, i: u64, out: CaseOutcome, prop: &str, known: &Known) {
        self.cases += 1;
        crate::rng::fnv_add(&mut self.batch_hash, &out.ev_hash.to_le_bytes());
        self.evaluations += out.evaluations.max(1);
        if out.nontrivial {
            self.distinct.insert(out.ev_hash);
        }
        self.probes.merge(&out.probes);
        for (k, v) in &out.faults {
            *self.faults.entry(k.clone()).or_insert(0) += v;
        }
        for s in &out.states {
            self.states.insert(*s);
        }
        self.sim_seconds += out.sim_seconds;
        self.api_calls += out.api_calls;
        self.dev_calls += out.dev_calls;
        if out.foreign_abort {
            self.foreign_aborts += 1;
        }
        if self.first_case.is_none() {
            self.first_case = Some(out.case.clone());
        }
        if self.samples.len() < 3 && out.nontrivial && (i % 7 == 0 || self.samples.is_empty()) {
            self.samples.push(out.case.clone());
        }
        for v in &out.viols {
            if v.prop != prop {
                *self.foreign_sigs.entry(v.signature()).or_insert(0) += 1;
                continue;
            }
            *self.all_viol_sigs.entry(v.signature()).or_insert(0) += 1;
            if let Some((_, sig, what)) = known.matches(v) {
                let e = self.known_hits.entry(sig.clone()).or_insert((0, what.clone()));
                e.0 += 1;
            } else if self.first_violation.is_none() {
                self.first_violation = Some((i, v.clone(), out.case.clone()));
            }
        }
        if self.first_violation.is_some() {
            self.done = true;
            self.pending.clear();
        }
    }
    fn offer(&mut self, i: u64, out: CaseOutcome, prop: &str, known: &Known) {
        if self.done {
            return;
        }
        self.pending.insert(i, out);
        while !self.done {
            match self.pending.remove(&self.expect) {
                Some(o) => {
                    let idx = self.expect;
                    self.expect += 1;
                    self.fold(idx, o, prop, known);
                }
                None => break,
            }
        }
    }
}

pub fn run_batch<F>(cfg: &BatchCfg, known: &Known, f: F) -> BatchResult
where
    F: Fn(u64, u64) -> CaseOutcome + Sync,
{
    let t0 = std::time::Instant::now();
    let next = AtomicU64::new(0);
    let acc: Mutex<Acc> = Mutex::new(Acc {
        expect: 0,
        pending: BTreeMap::new(),
        done: false,
        evaluations: 0,
        cases: 0,
        distinct: BTreeSet::new(),
        probes: Probes::default(),
        faults: BTreeMap::new(),
        states: BTreeSet::new(),
        sim_seconds: 0,
        api_calls: 0,
        dev_calls: 0,
        foreign_aborts: 0,
        samples: Vec::new(),
        first_case: None,
        first_violation: None,
        known_hits: BTreeMap::new(),
        all_viol_sigs: BTreeMap::new(),
        foreign_sigs: BTreeMap::new(),
        batch_hash: 0xcbf29ce484222325u64,
    });
    let stop = AtomicU64::new(u64::MAX);
    let harness_panics: Mutex<Vec<(u64, String)>> = Mutex::new(Vec::new());
    std::thread::scope(|s| {
        for _ in 0..cfg.jobs.max(1) {
            s.spawn(|| {
                crate::install_panic_hook_thread();
                loop {
                    let i = next.fetch_add(1, Ordering::SeqCst);
                    if i >= cfg.runs || i > stop.load(Ordering::SeqCst) {
                        break;
                    }
                    if t0.elapsed().as_secs_f64() > cfg.budget_s {
                        break;
                    }
                    crate::note_current_run(cfg.prop, cfg.seed, i);
                    let seed = crate::rng::mix(cfg.seed, crate::rng::tag_of(cfg.prop), i);
                    let out = match std::panic::catch_unwind(std::panic::AssertUnwindSafe(|| f(seed, i))) {
                        Ok(o) => o,
                        Err(_) => {
                            // a panic outside the guarded library calls is a bug of the simulator itself
                            let loc = crate::last_panic_location();
                            let mut h = harness_panics.lock().unwrap();
                            h.push((i, loc));
                            stop.fetch_min(i, Ordering::SeqCst);
                            continue;
                        }
                    };
                    let bad = out.viols.iter().any(|v| v.prop == cfg.prop && known.matches(v).is_none());
                    if bad {
                        // later runs are not needed once an unlisted violation exists; lower indices still finish
                        stop.fetch_min(i, Ordering::SeqCst);
                    }
                    acc.lock().unwrap().offer(i, out, cfg.prop, known);
                }
            });
        }
    });
    let acc = acc.into_inner().unwrap();
    let harness_panics = harness_panics.into_inner().unwrap();
    if let Some((i, loc)) = harness_panics.iter().min() {
        eprintln!("harness error: the simulator itself panicked in run {} at {} (seed formula: mix(VERIF_SEED={}, tag({}), {}))", i, loc, cfg.seed, cfg.prop, i);
        std::process::exit(2);
    }
    let Acc { evaluations, cases, distinct, probes, faults, states, sim_seconds, api_calls, dev_calls, foreign_aborts, mut samples, first_case, first_violation, known_hits, all_viol_sigs, foreign_sigs, batch_hash, .. } = acc;
    if samples.is_empty() {
        if let Some(c) = first_case {
            samples.push(c);
        }
    }
    let wall = t0.elapsed().as_secs_f64();
    let zero_probes: Vec<&str> = Vec::new();
    let _ = zero_probes;
    let evidence = json!({
        "property_id": cfg.prop,
        "tier": cfg.tier,
        "seed": cfg.seed,
        "level": cfg.level,
        "wall_s": wall,
        "violations": if first_violation.is_some() { 1 } else { 0 },
        "coverage": {
            "evaluations": evaluations,
            "distinct_nontrivial": distinct.len(),
            "rule": cfg.rule,
            "samples": samples,
            "simulated_runs": cases,
            "runs_per_hour": if wall > 0.0 { (cases as f64 / wall * 3600.0) as u64 } else { 0 },
            "seeds": format!("mix(VERIF_SEED={}, tag({}), i) for i in 0..{}", cfg.seed, cfg.prop, cases),
            "simulated_clock_seconds_covered": sim_seconds,
            "api_calls": api_calls,
            "device_calls": dev_calls,
            "faults_fired": faults,
            "distinct_abstract_states": states.len(),
            "probes": probes.m,
            "runs_cut_short_by_a_violation_of_another_property": foreign_aborts,
            "violations_of_other_properties_seen_not_judged_here": foreign_sigs,
            "known_findings_matched": known_hits.iter().map(|(k, v)| (k.clone(), v.0)).collect::<BTreeMap<_, _>>(),
            "engine": cfg.engine,
            "components": cfg.components,
            "worker_threads": cfg.jobs,
            "batch_event_log_hash": format!("{:016x}", batch_hash),
            "tier_specific": cfg.extra,
        },
        "assumptions": cfg.assumptions,
    });
    BatchResult { first_violation, known_hits, evidence, all_viol_sigs }
}

pub fn write_evidence(prop: &str, ev: &Value) {
    let dir = std::env::var("VERIF_EVIDENCE_DIR").unwrap_or_else(|_| "/verif/evidence".to_string());
    let _ = std::fs::create_dir_all(&dir);
    let path = format!("{}/{}.json", dir, prop);
    std::fs::write(&path, serde_json::to_string_pretty(ev).unwrap()).expect("write evidence");
}

pub fn write_replay(prop: &str, seed: u64, idx: u64, v: &Violation, engine: &str, case: &Value, ev_hash: u64) -> String {
    let dir = std::env::var("VERIF_REPLAY_DIR").unwrap_or_else(|_| "/verif/replays".to_string());
    let _ = std::fs::create_dir_all(&dir);
    let body = json!({
        "property": prop,
        "engine": engine,
        "seed": seed,
        "run_index": idx,
        "signature": v.signature(),
        "detail": v.detail,
        "ev_hash": format!("{:016x}", ev_hash),
        "case": case,
    });
    let text = serde_json::to_string_pretty(&body).unwrap();
    let h = crate::rng::fnv(text.as_bytes());
    let path = format!("{}/{}-{}-{:08x}.json", dir, prop, seed, h as u32);
    std::fs::write(&path, text).expect("write replay");
    path
}
