//! Quiescent-point oracles (C02): the raw medium, read by the independent reader and by a
//! fresh mount of the library, must show what the model says.

use crate::clock::SimClock;
use crate::disk::RoDisk;
use crate::exec::*;
use crate::fatspec::{self, FsckOpts};
use crate::fs::{make_fs, Fs, Name};
use crate::world::*;
use embedded_sdmmc::Mode;

impl<'a> World<'a> {
    pub fn checkpoint(&mut self, is_final: bool) {
        if self.aborted.is_some() {
            return;
        }
        self.probes.hit(if is_final { "final_remount" } else { "checkpoint_remount" });
        for vol in 0..self.vols.len() {
            self.checkpoint_vol(vol);
        }
        self.ev("checkpoint");
    }

    fn checkpoint_vol(&mut self, vol: usize) {
        let g = self.vols[vol].geom.clone();
        let mut found: Vec<(&'static str, String, String)> = Vec::new();
        let tree = self.disk.with_image(|img| fatspec::walk(img, &g, &self.vols[vol].fat, &FsckOpts::default()));
        // model dir id -> tree index, by path
        let mut paths: std::collections::BTreeMap<u32, Vec<[u8; 11]>> = std::collections::BTreeMap::new();
        paths.insert(0, Vec::new());
        let mut order: Vec<u32> = vec![0];
        let mut i = 0;
        while i < order.len() {
            let id = order[i];
            i += 1;
            let p = paths[&id].clone();
            for (n, node) in &self.vols[vol].dirs[&id].entries {
                if let MNode::Dir(c) = node {
                    let mut cp = p.clone();
                    cp.push(*n);
                    paths.insert(*c, cp);
                    order.push(*c);
                }
            }
        }
        for id in order {
            let path = &paths[&id];
            let pstr = path.iter().map(fatspec::name_str).collect::<Vec<_>>().join("/");
            let ti = match tree.find_dir(path) {
                Some(t) => t,
                None => {
                    found.push(("dir-missing", String::new(), format!("/{}", pstr)));
                    continue;
                }
            };
            let td = &tree.dirs[ti];
            let md = &self.vols[vol].dirs[&id];
            if !md.touched {
                let now: Vec<[u8; 32]> = td.slots.iter().map(|s| s.raw).collect();
                if now != md.init_slots {
                    found.push(("untouched-dir-changed", String::new(), format!("/{}", pstr)));
                }
            }
            // every model entry is on the medium
            for (n, node) in &md.entries {
                if self.relax.contains(&(vol, id, *n)) {
                    continue;
                }
                let e = td.ents.iter().find(|e| &e.name == n);
                let nstr = fatspec::name_str(n);
                match (node, e) {
                    (MNode::Other, _) => {}
                    (_, None) => found.push(("entry-missing", String::new(), format!("/{}/{}", pstr, nstr))),
                    (MNode::Dir(_), Some(e)) => {
                        if !e.is_dir() {
                            found.push(("kind", "dir-shown-as-file".into(), format!("/{}/{}", pstr, nstr)));
                        }
                    }
                    (MNode::File(f), Some(e)) => {
                        if e.is_dir() {
                            found.push(("kind", "file-shown-as-dir".into(), format!("/{}/{}", pstr, nstr)));
                            continue;
                        }
                        if let Some(raw) = &f.init_raw {
                            if !f.touched && &e.raw != raw {
                                found.push(("untouched-entry-changed", String::new(), format!("/{}/{}", pstr, nstr)));
                            }
                            if !f.touched {
                                let ch = tree.file_chain(ti, n).cloned().unwrap_or_default();
                                if ch != f.init_chain {
                                    found.push(("untouched-chain-changed", String::new(), format!("/{}/{}", pstr, nstr)));
                                }
                            }
                        }
                        if e.ctime != f.ctime {
                            found.push(("ctime", String::new(), format!("/{}/{}: medium {:?} model {:?}", pstr, nstr, e.ctime, f.ctime)));
                        }
                        if (e.attr & !0x20) != (f.attr & !0x20) {
                            found.push(("attr", String::new(), format!("/{}/{}: medium {:#x} model {:#x}", pstr, nstr, e.attr, f.attr)));
                        }
                        if e.size != f.disk_size {
                            found.push(("size", String::new(), format!("/{}/{}: medium {} model {}", pstr, nstr, e.size, f.disk_size)));
                        }
                        if f.clean {
                            if !f.mtime_ok.contains(&e.mtime) {
                                found.push(("mtime", String::new(), format!("/{}/{}: medium {:?} acceptable {:?}", pstr, nstr, e.mtime, f.mtime_ok)));
                            }
                            if let Content::Mem(d) = &f.data {
                                let ch = tree.file_chain(ti, n).cloned().unwrap_or_default();
                                let got = self.disk.with_image(|img| fatspec::read_chain_bytes(img, &g, &ch, e.size));
                                if &got != d {
                                    let first = got.iter().zip(d.iter()).position(|(a, b)| a != b).unwrap_or(got.len().min(d.len()));
                                    found.push(("content", String::new(), format!("/{}/{}: differs at {} (medium {} bytes, model {})", pstr, nstr, first, got.len(), d.len())));
                                }
                            }
                        }
                    }
                }
            }
            // nothing on the medium the model does not know (dot entries and volume labels aside)
            for e in &td.ents {
                if e.is_dot() || (e.is_vol() && !e.is_dir()) {
                    continue;
                }
                if !md.entries.contains_key(&e.name) && !self.relax.contains(&(vol, id, e.name)) {
                    found.push(("unexpected-entry", String::new(), format!("/{}/{}", pstr, fatspec::name_str(&e.name))));
                }
            }
        }
        for p in &tree.problems {
            if p.kind == "duplicate-name" {
                found.push(("duplicate-name", String::new(), p.detail.clone()));
            }
        }
        // a name the history made that no directory shows (or one nothing made) is also a listing matter (C06),
        // once the library's own listing through a fresh mount is known to equal the reader's
        let c06: Vec<(&'static str, String)> = found.iter().filter(|f| f.0 == "entry-missing" || f.0 == "unexpected-entry" || f.0 == "dir-missing").map(|f| (f.0, f.2.clone())).collect();
        for (o, d, det) in found {
            self.violate("C02", &format!("remount/{}", o), &d, det);
        }
        if !self.faulty {
            let disagreements = self.fresh_mount_compare(vol, &tree);
            if disagreements == 0 {
                for (o, det) in c06 {
                    let oracle = if o == "unexpected-entry" { "listing-shows-unknown-entry" } else { "listing-misses-live-entry" };
                    self.violate("C06", oracle, "fresh-mount", format!("{} (the library's listing through a fresh mount equals the independent reader's)", det));
                }
            }
        }
    }

    /// Mount the raw medium with a brand-new VolumeManager and walk it through the public API;
    /// it must show the same tree, sizes and contents as the independent reader.
    fn fresh_mount_compare(&mut self, vol: usize, tree: &fatspec::Tree) -> usize {
        let g = self.vols[vol].geom.clone();
        let slot = self.vols[vol].mbr_slot;
        let problems = {
            let st = self.disk.st.borrow();
            lib_tree_compare(&st.image, slot, &g, tree, self.clock.secs.get())
        };
        let n = problems.len();
        for (o, d) in problems {
            self.violate("C02", &format!("fresh-mount/{}", o), "", d);
        }
        n
    }
}

/// Walk a volume with a brand-new VolumeManager over a read-only view of `image` and compare
/// names, sizes, attributes and file contents with the independent reader's tree.
pub fn lib_tree_compare(image: &crate::disk::Image, slot: u8, g: &fatspec::Geom, tree: &fatspec::Tree, secs: u64) -> Vec<(String, String)> {
    lib_tree_compare_ex(image, slot, g, tree, secs, None)
}

/// `before`: Some((other medium, slot)): the same volume manager first tries to open that slot of the other medium
/// (whatever the outcome: an empty slot fails right behind the partition table, a volume stays mounted with its root
/// listed), then the medium is exchanged and the caller reaches for `device()`; everything afterwards must be
/// answered from the medium now in the slot.
pub fn lib_tree_compare_ex(image: &crate::disk::Image, slot: u8, g: &fatspec::Geom, tree: &fatspec::Tree, secs: u64, before: Option<(&crate::disk::Image, u8)>) -> Vec<(String, String)> {
    let clock = SimClock::new(secs);
    let mut problems: Vec<(String, String)> = Vec::new();
    let ro = RoDisk::new(image);
    let r = std::panic::catch_unwind(std::panic::AssertUnwindSafe(|| {
        let fs = make_fs(if before.is_some() { (4, 5, 2) } else { (4, 4, 1) }, &ro, &clock, 77);
        let mut out: Vec<(String, String)> = Vec::new();
        if let Some((other, oslot)) = before {
            ro.alt.set(Some(other));
            if let Ok(ov) = fs.open_volume(oslot as usize, 0) {
                if let Ok(d) = fs.open_root_dir(ov, 0) {
                    let _ = fs.iterate(d, 0, &mut |_| {});
                    let _ = fs.close_dir(d, 0);
                }
            }
            ro.alt.set(None);
            fs.touch_device();
        }
        let v = match fs.open_volume(slot as usize, 0) {
            Ok(v) => v,
            Err(e) => {
                out.push(("mount".into(), format!("{:?}", e)));
                return out;
            }
        };
        for (ti, td) in tree.dirs.iter().enumerate() {
            let root = match fs.open_root_dir(v, 0) {
                Ok(d) => d,
                Err(e) => {
                    out.push(("open-root".into(), format!("{:?}", e)));
                    return out;
                }
            };
            let mut cur = root;
            let mut ok = true;
            for comp in &td.path {
                let nm = match crate::names::sfn_to_string(comp) {
                    Some(s) => s,
                    None => {
                        ok = false;
                        break;
                    }
                };
                match fs.open_dir(cur, &Name::Str(nm), 0) {
                    Ok(d) => {
                        let _ = fs.close_dir(cur, 0);
                        cur = d;
                    }
                    Err(e) => {
                        out.push(("open-dir".into(), format!("/{}: {:?}", td.path.iter().map(fatspec::name_str).collect::<Vec<_>>().join("/"), e)));
                        ok = false;
                        break;
                    }
                }
            }
            if ok {
                let mut listing: Vec<([u8; 11], u32, u8)> = Vec::new();
                if let Err(e) = fs.iterate(cur, 0, &mut |de| listing.push((sfn_bytes(&de.name), de.size, attr_bits(&de.attributes)))) {
                    out.push(("iterate".into(), format!("{:?}", e)));
                }
                let want: Vec<([u8; 11], u32, u8)> = td.ents.iter().map(|e| (e.name, e.size, e.attr & 0x3F)).collect();
                if listing != want {
                    out.push(("listing".into(), format!("dir {}: library {} entries, reader {}", ti, listing.len(), want.len())));
                }
                for f in tree.files.iter().filter(|f| f.dir == ti) {
                    let e = &td.ents[f.ent_idx];
                    if e.size > (1 << 20) {
                        continue;
                    }
                    let nm = match crate::names::sfn_to_string(&e.name) {
                        Some(s) => s,
                        None => continue,
                    };
                    match fs.open_file(cur, &Name::Str(nm.clone()), Mode::ReadOnly, 0) {
                        Ok(fh) => {
                            let mut buf = vec![0u8; e.size as usize + 7];
                            let n = fs.read(fh, &mut buf, 0);
                            let want = fatspec::read_chain_bytes(ro.image, g, &f.chain, e.size);
                            match n {
                                Ok(n) if n == e.size as usize && buf[..n] == want[..] => {}
                                Ok(n) => out.push(("file-content".into(), format!("{}: library read {} bytes, reader {}", nm, n, want.len()))),
                                Err(er) => out.push(("file-read".into(), format!("{}: {:?}", nm, er))),
                            }
                            let _ = fs.close_file(fh, 0);
                        }
                        Err(er) => out.push(("file-open".into(), format!("{}: {:?}", nm, er))),
                    }
                }
            }
            let _ = fs.close_dir(cur, 0);
        }
        // the volume is deliberately not closed: closing would store the FSInfo record
        out
    }));
    let wrote = ro.wrote.get();
    match r {
        Ok(v) => problems.extend(v),
        Err(_) => problems.push(("panic".into(), crate::last_panic_location())),
    }
    if wrote > 0 {
        problems.push(("read-only-walk-wrote".into(), format!("{} writes", wrote)));
    }
    problems
}

pub fn _unused(_f: &dyn Fs) {}
