//! Object-safe facade over `VolumeManager<_, _, D, F, V>` so that the limit
//! configuration (const generics) can be chosen per run. Every method calls the
//! real library; `fl` selects the API flavour: 0 raw-handle methods, 1 RAII
//! wrapper methods, 2 embedded-io traits (where they exist) / drop (for close).

use crate::clock::SimClock;
use crate::disk::DiskError;
use embedded_sdmmc::{BlockDevice, DirEntry, LfnBuffer, Mode, RawDirectory, RawFile, RawVolume, ShortFileName, VolumeIdx, VolumeManager};

pub type LibErr = embedded_sdmmc::Error<DiskError>;

#[derive(Clone, Debug)]
pub enum Name {
    Str(String),
    Sfn(ShortFileName),
}

macro_rules! with_name {
    ($n:expr, |$x:ident| $body:expr) => {
        match $n {
            Name::Str(s) => {
                let $x = s.as_str();
                $body
            }
            Name::Sfn(s) => {
                let $x = s;
                $body
            }
        }
    };
}

/// `seek_end` arguments POSITIVE_END + n (0 < n < 2^32) mean SeekFrom::End(+n) in the embedded-io flavour (a position
/// behind the end; the other flavours cannot express it and refuse the number as too large)
pub const POSITIVE_END: u64 = 1 << 62;

pub trait Fs {
    fn limits(&self) -> (usize, usize, usize);
    fn open_volume(&self, idx: usize, fl: u8) -> Result<RawVolume, LibErr>;
    fn close_volume(&self, v: RawVolume, fl: u8) -> Result<(), LibErr>;
    fn open_root_dir(&self, v: RawVolume, fl: u8) -> Result<RawDirectory, LibErr>;
    fn open_dir(&self, d: RawDirectory, name: &Name, fl: u8) -> Result<RawDirectory, LibErr>;
    fn change_dir(&self, d: RawDirectory, name: &Name) -> (RawDirectory, Result<(), LibErr>);
    fn close_dir(&self, d: RawDirectory, fl: u8) -> Result<(), LibErr>;
    fn find(&self, d: RawDirectory, name: &Name, fl: u8) -> Result<DirEntry, LibErr>;
    fn iterate(&self, d: RawDirectory, fl: u8, f: &mut dyn FnMut(&DirEntry)) -> Result<(), LibErr>;
    fn iterate_lfn(&self, d: RawDirectory, buf: &mut [u8], fl: u8, f: &mut dyn FnMut(&DirEntry, Option<&str>)) -> Result<(), LibErr>;
    fn open_file(&self, d: RawDirectory, name: &Name, mode: Mode, fl: u8) -> Result<RawFile, LibErr>;
    fn close_file(&self, f: RawFile, fl: u8) -> Result<(), LibErr>;
    fn flush_file(&self, f: RawFile, fl: u8) -> Result<(), LibErr>;
    fn read(&self, f: RawFile, buf: &mut [u8], fl: u8) -> Result<usize, LibErr>;
    fn write(&self, f: RawFile, data: &[u8], fl: u8) -> Result<(), LibErr>;
    fn seek_start(&self, f: RawFile, off: u64, fl: u8) -> Result<Option<u64>, LibErr>;
    fn seek_cur(&self, f: RawFile, d: i64, fl: u8) -> Result<Option<u64>, LibErr>;
    fn seek_end(&self, f: RawFile, back: u64, fl: u8) -> Result<Option<u64>, LibErr>;
    fn length(&self, f: RawFile, fl: u8) -> Result<u32, LibErr>;
    fn offset(&self, f: RawFile, fl: u8) -> Result<u32, LibErr>;
    /// embedded-io `Seek::stream_position` (a provided method of the trait)
    fn stream_pos(&self, f: RawFile) -> Result<u64, LibErr>;
    fn eof(&self, f: RawFile, fl: u8) -> Result<bool, LibErr>;
    fn delete(&self, d: RawDirectory, name: &Name, fl: u8) -> Result<(), LibErr>;
    fn make_dir(&self, d: RawDirectory, name: &Name, fl: u8) -> Result<(), LibErr>;
    fn has_open_handles(&self) -> bool;
    fn volume_label(&self, v: RawVolume) -> Result<Option<Vec<u8>>, LibErr>;
    /// `VolumeManager::device()` with a closure that does nothing: what a caller does to reach the driver after the
    /// medium was exchanged (the harness exchanges the medium itself, through the shared reference it kept)
    fn touch_device(&self);
}

fn to_u32(x: u64) -> Result<u32, LibErr> {
    u32::try_from(x).map_err(|_| LibErr::InvalidOffset)
}

impl<'c, B, const D: usize, const F: usize, const V: usize> Fs for VolumeManager<B, &'c SimClock, D, F, V>
where
    B: BlockDevice<Error = DiskError>,
{
    fn limits(&self) -> (usize, usize, usize) {
        (D, F, V)
    }
    fn open_volume(&self, idx: usize, fl: u8) -> Result<RawVolume, LibErr> {
        if fl == 0 {
            self.open_raw_volume(VolumeIdx(idx))
        } else {
            Ok(self.open_volume(VolumeIdx(idx))?.to_raw_volume())
        }
    }
    fn close_volume(&self, v: RawVolume, fl: u8) -> Result<(), LibErr> {
        match fl {
            0 => self.close_volume(v),
            1 => v.to_volume(self).close(),
            _ => {
                // drop flavour: errors are swallowed by design of the wrapper; report through a probe call
                drop(v.to_volume(self));
                Ok(())
            }
        }
    }
    fn open_root_dir(&self, v: RawVolume, fl: u8) -> Result<RawDirectory, LibErr> {
        if fl == 0 {
            self.open_root_dir(v)
        } else {
            let vol = v.to_volume(self);
            let r = vol.open_root_dir().map(|d| d.to_raw_directory());
            let _ = vol.to_raw_volume();
            r
        }
    }
    fn open_dir(&self, d: RawDirectory, name: &Name, fl: u8) -> Result<RawDirectory, LibErr> {
        if fl == 0 {
            with_name!(name, |n| self.open_dir(d, n))
        } else {
            let dir = d.to_directory(self);
            let r = with_name!(name, |n| dir.open_dir(n)).map(|x| x.to_raw_directory());
            let _ = dir.to_raw_directory();
            r
        }
    }
    fn change_dir(&self, d: RawDirectory, name: &Name) -> (RawDirectory, Result<(), LibErr>) {
        let mut dir = d.to_directory(self);
        let r = with_name!(name, |n| dir.change_dir(n));
        (dir.to_raw_directory(), r)
    }
    fn close_dir(&self, d: RawDirectory, fl: u8) -> Result<(), LibErr> {
        match fl {
            0 => self.close_dir(d),
            1 => d.to_directory(self).close(),
            _ => {
                drop(d.to_directory(self));
                Ok(())
            }
        }
    }
    fn find(&self, d: RawDirectory, name: &Name, fl: u8) -> Result<DirEntry, LibErr> {
        if fl == 0 {
            with_name!(name, |n| self.find_directory_entry(d, n))
        } else {
            let dir = d.to_directory(self);
            let r = with_name!(name, |n| dir.find_directory_entry(n));
            let _ = dir.to_raw_directory();
            r
        }
    }
    fn iterate(&self, d: RawDirectory, fl: u8, f: &mut dyn FnMut(&DirEntry)) -> Result<(), LibErr> {
        if fl == 0 {
            self.iterate_dir(d, |e| f(e))
        } else {
            let dir = d.to_directory(self);
            let r = dir.iterate_dir(|e| f(e));
            let _ = dir.to_raw_directory();
            r
        }
    }
    fn iterate_lfn(&self, d: RawDirectory, buf: &mut [u8], fl: u8, f: &mut dyn FnMut(&DirEntry, Option<&str>)) -> Result<(), LibErr> {
        let mut lb = LfnBuffer::new(buf);
        if fl == 0 {
            self.iterate_dir_lfn(d, &mut lb, |e, s| f(e, s))
        } else {
            let dir = d.to_directory(self);
            let r = dir.iterate_dir_lfn(&mut lb, |e, s| f(e, s));
            let _ = dir.to_raw_directory();
            r
        }
    }
    fn open_file(&self, d: RawDirectory, name: &Name, mode: Mode, fl: u8) -> Result<RawFile, LibErr> {
        if fl == 0 {
            with_name!(name, |n| self.open_file_in_dir(d, n, mode))
        } else {
            let dir = d.to_directory(self);
            let r = with_name!(name, |n| dir.open_file_in_dir(n, mode)).map(|x| x.to_raw_file());
            let _ = dir.to_raw_directory();
            r
        }
    }
    fn close_file(&self, f: RawFile, fl: u8) -> Result<(), LibErr> {
        match fl {
            0 => self.close_file(f),
            1 => f.to_file(self).close(),
            _ => {
                drop(f.to_file(self));
                Ok(())
            }
        }
    }
    fn flush_file(&self, f: RawFile, fl: u8) -> Result<(), LibErr> {
        match fl {
            0 => self.flush_file(f),
            1 => {
                let file = f.to_file(self);
                let r = file.flush();
                let _ = file.to_raw_file();
                r
            }
            _ => {
                let mut file = f.to_file(self);
                let r = embedded_io::Write::flush(&mut file);
                let _ = file.to_raw_file();
                r
            }
        }
    }
    fn read(&self, f: RawFile, buf: &mut [u8], fl: u8) -> Result<usize, LibErr> {
        match fl {
            0 => self.read(f, buf),
            1 => {
                let file = f.to_file(self);
                let r = file.read(buf);
                let _ = file.to_raw_file();
                r
            }
            _ => {
                let mut file = f.to_file(self);
                let r = embedded_io::Read::read(&mut file, buf);
                let _ = file.to_raw_file();
                r
            }
        }
    }
    fn write(&self, f: RawFile, data: &[u8], fl: u8) -> Result<(), LibErr> {
        match fl {
            0 => self.write(f, data),
            1 => {
                let file = f.to_file(self);
                let r = file.write(data);
                let _ = file.to_raw_file();
                r
            }
            _ => {
                let mut file = f.to_file(self);
                let r = embedded_io::Write::write(&mut file, data);
                let _ = file.to_raw_file();
                match r {
                    Ok(n) if n == data.len() => Ok(()),
                    // the adapter promises to have written everything it reports; a short
                    // count is surfaced as an error the oracle will not accept
                    Ok(_) => Err(LibErr::Unsupported),
                    Err(e) => Err(e),
                }
            }
        }
    }
    fn seek_start(&self, f: RawFile, off: u64, fl: u8) -> Result<Option<u64>, LibErr> {
        match fl {
            0 => self.file_seek_from_start(f, to_u32(off)?).map(|_| None),
            1 => {
                let file = f.to_file(self);
                let r = to_u32(off).and_then(|o| file.seek_from_start(o));
                let _ = file.to_raw_file();
                r.map(|_| None)
            }
            _ => {
                let mut file = f.to_file(self);
                let r = embedded_io::Seek::seek(&mut file, embedded_io::SeekFrom::Start(off));
                let _ = file.to_raw_file();
                r.map(Some)
            }
        }
    }
    fn seek_cur(&self, f: RawFile, d: i64, fl: u8) -> Result<Option<u64>, LibErr> {
        let d32 = || i32::try_from(d).map_err(|_| LibErr::InvalidOffset);
        match fl {
            0 => self.file_seek_from_current(f, d32()?).map(|_| None),
            1 => {
                let file = f.to_file(self);
                let r = d32().and_then(|o| file.seek_from_current(o));
                let _ = file.to_raw_file();
                r.map(|_| None)
            }
            _ => {
                let mut file = f.to_file(self);
                let r = embedded_io::Seek::seek(&mut file, embedded_io::SeekFrom::Current(d));
                let _ = file.to_raw_file();
                r.map(Some)
            }
        }
    }
    fn seek_end(&self, f: RawFile, back: u64, fl: u8) -> Result<Option<u64>, LibErr> {
        match fl {
            0 => self.file_seek_from_end(f, to_u32(back)?).map(|_| None),
            1 => {
                let file = f.to_file(self);
                let r = to_u32(back).and_then(|o| file.seek_from_end(o));
                let _ = file.to_raw_file();
                r.map(|_| None)
            }
            _ => {
                let mut file = f.to_file(self);
                // `back` bytes before the end is SeekFrom::End(-back)
                let arg = if (POSITIVE_END + 1..POSITIVE_END + (1 << 32)).contains(&back) {
                    (back - POSITIVE_END) as i64
                } else if back > i64::MAX as u64 {
                    i64::MIN
                } else {
                    -(back as i64)
                };
                let r = embedded_io::Seek::seek(&mut file, embedded_io::SeekFrom::End(arg));
                let _ = file.to_raw_file();
                r.map(Some)
            }
        }
    }
    fn length(&self, f: RawFile, fl: u8) -> Result<u32, LibErr> {
        if fl == 0 {
            self.file_length(f)
        } else {
            let file = f.to_file(self);
            let r = file.length();
            let _ = file.to_raw_file();
            Ok(r)
        }
    }
    fn offset(&self, f: RawFile, fl: u8) -> Result<u32, LibErr> {
        if fl == 0 {
            self.file_offset(f)
        } else {
            let file = f.to_file(self);
            let r = file.offset();
            let _ = file.to_raw_file();
            Ok(r)
        }
    }
    fn stream_pos(&self, f: RawFile) -> Result<u64, LibErr> {
        let mut file = f.to_file(self);
        let r = embedded_io::Seek::stream_position(&mut file);
        let _ = file.to_raw_file();
        r
    }
    fn eof(&self, f: RawFile, fl: u8) -> Result<bool, LibErr> {
        if fl == 0 {
            self.file_eof(f)
        } else {
            let file = f.to_file(self);
            let r = file.is_eof();
            let _ = file.to_raw_file();
            Ok(r)
        }
    }
    fn delete(&self, d: RawDirectory, name: &Name, fl: u8) -> Result<(), LibErr> {
        if fl == 0 {
            with_name!(name, |n| self.delete_file_in_dir(d, n))
        } else {
            let dir = d.to_directory(self);
            let r = with_name!(name, |n| dir.delete_file_in_dir(n));
            let _ = dir.to_raw_directory();
            r
        }
    }
    fn make_dir(&self, d: RawDirectory, name: &Name, fl: u8) -> Result<(), LibErr> {
        if fl == 0 {
            with_name!(name, |n| self.make_dir_in_dir(d, n))
        } else {
            let dir = d.to_directory(self);
            let r = with_name!(name, |n| dir.make_dir_in_dir(n));
            let _ = dir.to_raw_directory();
            r
        }
    }
    fn has_open_handles(&self) -> bool {
        VolumeManager::has_open_handles(self)
    }
    fn volume_label(&self, v: RawVolume) -> Result<Option<Vec<u8>>, LibErr> {
        self.get_root_volume_label(v).map(|o| o.map(|n| n.name().to_vec()))
    }
    fn touch_device(&self) {
        // `device()` is declared to return the manager's time-source type (its `T`), so the closure has to produce
        // a `&SimClock`; one leaked per thread serves every call
        thread_local! {
            static SPARE: &'static SimClock = Box::leak(Box::new(SimClock::new(0)));
        }
        let spare: &'static SimClock = SPARE.with(|c| *c);
        let _ = self.device(|_d| spare);
    }
}

/// The monomorphised limit configurations (dirs, files, volumes). Every value 1..8 of each kind occurs.
pub const LIMITS: &[(usize, usize, usize)] = &[
    (4, 4, 1),
    (1, 1, 1),
    (2, 1, 2),
    (1, 2, 3),
    (3, 3, 2),
    (2, 4, 4),
    (5, 2, 1),
    (4, 5, 2),
    (6, 3, 3),
    (3, 6, 1),
    (7, 1, 5),
    (1, 7, 2),
    (8, 4, 6),
    (4, 8, 3),
    (2, 2, 7),
    (5, 5, 8),
];

pub fn make_fs<'a, B>(limits: (usize, usize, usize), dev: B, clock: &'a SimClock, id_offset: u32) -> Box<dyn Fs + 'a>
where
    B: BlockDevice<Error = DiskError> + 'a,
{
    macro_rules! mk {
        ($d:literal, $f:literal, $v:literal) => {
            Box::new(VolumeManager::<B, &'a SimClock, $d, $f, $v>::new_with_limits(dev, clock, id_offset))
        };
    }
    match limits {
        (4, 4, 1) => mk!(4, 4, 1),
        (1, 1, 1) => mk!(1, 1, 1),
        (2, 1, 2) => mk!(2, 1, 2),
        (1, 2, 3) => mk!(1, 2, 3),
        (3, 3, 2) => mk!(3, 3, 2),
        (2, 4, 4) => mk!(2, 4, 4),
        (5, 2, 1) => mk!(5, 2, 1),
        (4, 5, 2) => mk!(4, 5, 2),
        (6, 3, 3) => mk!(6, 3, 3),
        (3, 6, 1) => mk!(3, 6, 1),
        (7, 1, 5) => mk!(7, 1, 5),
        (1, 7, 2) => mk!(1, 7, 2),
        (8, 4, 6) => mk!(8, 4, 6),
        (4, 8, 3) => mk!(4, 8, 3),
        (2, 2, 7) => mk!(2, 2, 7),
        (5, 5, 8) => mk!(5, 5, 8),
        _ => panic!("limit configuration {:?} not compiled", limits),
    }
}

pub fn err_name(e: &LibErr) -> &'static str {
    use embedded_sdmmc::Error::*;
    match e {
        DeviceError(_) => "DeviceError",
        FormatError(_) => "FormatError",
        NoSuchVolume => "NoSuchVolume",
        FilenameError(_) => "FilenameError",
        TooManyOpenVolumes => "TooManyOpenVolumes",
        TooManyOpenDirs => "TooManyOpenDirs",
        TooManyOpenFiles => "TooManyOpenFiles",
        BadHandle => "BadHandle",
        NotFound => "NotFound",
        FileAlreadyOpen => "FileAlreadyOpen",
        DirAlreadyOpen => "DirAlreadyOpen",
        OpenedDirAsFile => "OpenedDirAsFile",
        OpenedFileAsDir => "OpenedFileAsDir",
        DeleteDirAsFile => "DeleteDirAsFile",
        VolumeStillInUse => "VolumeStillInUse",
        VolumeAlreadyOpen => "VolumeAlreadyOpen",
        Unsupported => "Unsupported",
        EndOfFile => "EndOfFile",
        BadCluster => "BadCluster",
        ConversionError => "ConversionError",
        NotEnoughSpace => "NotEnoughSpace",
        AllocationError => "AllocationError",
        UnterminatedFatChain => "UnterminatedFatChain",
        ReadOnly => "ReadOnly",
        FileAlreadyExists => "FileAlreadyExists",
        BadBlockSize(_) => "BadBlockSize",
        InvalidOffset => "InvalidOffset",
        DiskFull => "DiskFull",
        DirAlreadyExists => "DirAlreadyExists",
        LockError => "LockError",
    }
}
