mod batch;
mod blind;
mod check;
mod clock;
mod crash;
mod dirmedia;
mod disk;
mod exec;
mod exec_dirs;
mod exec_files;
mod fatspec;
mod faults;
mod fs;
mod fscheck;
mod gen;
mod huge;
mod mkfs;
mod monitors;
mod mount;
mod names;
mod ops;
mod rng;
mod runner;
mod sdbus;
mod sdcard_model;
mod sdrun;
mod selftest;
mod world;

use batch::*;
use serde_json::Value;
use std::cell::RefCell;

thread_local! {
    static LAST_PANIC: RefCell<String> = RefCell::new(String::new());
}

pub fn last_panic_location() -> String {
    LAST_PANIC.with(|l| l.borrow().clone())
}

pub fn install_panic_hook_thread() {}

fn install_panic_hook() {
    std::panic::set_hook(Box::new(|info| {
        let loc = info.location().map(|l| format!("{}:{}", l.file().rsplit("/src/").next().unwrap_or(l.file()), l.line())).unwrap_or_default();
        if std::env::var("VERIF_DEBUG_PANIC").is_ok() {
            eprintln!("panic: {}", info);
        }
        LAST_PANIC.with(|l| *l.borrow_mut() = loc);
    }));
}

/// When VERIF_MARK_FILE is set (crash triage, single worker) the run about to start is noted on disk.
pub fn note_current_run(prop: &str, seed: u64, idx: u64) {
    if let Ok(p) = std::env::var("VERIF_MARK_FILE") {
        let _ = std::fs::write(p, format!("{} {} {}", prop, seed, idx));
    }
}

pub static THOROUGH: std::sync::atomic::AtomicBool = std::sync::atomic::AtomicBool::new(false);
pub fn thorough() -> bool {
    THOROUGH.load(std::sync::atomic::Ordering::Relaxed)
}

pub const FS_PROPS: &[&str] = &["C01", "C02", "C03", "C04", "C05", "C06", "C07", "C08", "C16"];

fn prop_static(p: &str) -> Option<&'static str> {
    ["C01", "C02", "C03", "C04", "C05", "C06", "C07", "C08", "C09", "C10", "C11", "C12", "C13", "C14", "C15", "C16", "C17"].iter().find(|x| **x == p).copied()
}

fn engine_of(prop: &str) -> &'static str {
    if FS_PROPS.contains(&prop) {
        "fs-history"
    } else if prop == "C09" || prop == "C10" {
        "fs-crash"
    } else if prop == "C11" {
        "fs-fault"
    } else if prop == "C17" {
        "dir-media"
    } else if prop == "C15" {
        "mount"
    } else if prop == "C12" || prop == "C13" || prop == "C14" {
        "sd-sim"
    } else {
        "unknown"
    }
}

/// one C01 case in 64 is a huge-file history
pub fn is_huge_seed(seed: u64) -> bool {
    (seed >> 20) % 64 == 13 || std::env::var("VERIF_HUGE_ONLY").is_ok()
}

pub fn run_case_pub(prop: &str, seed: u64) -> CaseOutcome {
    run_case(prop, seed)
}
pub fn replay_case_pub(prop: &str, case: &Value) -> Result<CaseOutcome, String> {
    replay_case(prop, case)
}

fn run_case(prop: &str, seed: u64) -> CaseOutcome {
    if prop == "C06" && seed & 1 == 1 {
        // half of the C06 cases are generated / corrupted directory media rather than histories
        return dirmedia::dir_case("C06", seed, false);
    }
    if prop == "C01" && is_huge_seed(seed) {
        // a slice of the C01 cases are huge-file histories (offsets beyond 2^31, the 4 GiB - 1 limit)
        return huge::huge_case("C01", seed);
    }
    if prop == "C04" && (seed >> 20) % 16 == 5 {
        // a slice of the C04 cases: media whose information sector (or the pointer to it) is damaged; if they mount,
        // writing must stay where the formatter's geometry allows (judged by the mount engine)
        return mount::mount_case_info(seed);
    }
    if prop == "C05" && (seed >> 20) % 256 == 77 {
        // a slice of the C05 cases: a file of 32768 .. 262144 clusters is deleted; all of them must be free again
        return huge::huge_case("C05", seed);
    }
    if prop == "C07" && is_huge_seed(seed) {
        // a slice of the C07 cases: two directory entries 4 GiB apart, the file of one of them open
        return huge::huge_case("C07", seed);
    }
    match engine_of(prop) {
        "fs-history" => fscheck::fs_case(prop, seed),
        "fs-crash" => crash::crash_case(prop_static(prop).unwrap(), seed),
        "fs-fault" => faults::fault_case(seed, env_u64("VERIF_FAULT_POINTS", if thorough() { 100_000 } else { 400 }) as usize),
        "dir-media" => dirmedia::dir_case(prop_static(prop).unwrap(), seed, thorough()),
        "mount" => mount::mount_case(seed),
        "sd-sim" => sdrun::sd_case(prop_static(prop).unwrap(), seed),
        _ => panic!("no engine for {}", prop),
    }
}

fn replay_case(prop: &str, case: &Value) -> Result<CaseOutcome, String> {
    if let Some(fs) = case.get("from_seed") {
        let seed = fs["seed"].as_u64().ok_or("seed")?;
        let idx = fs["index"].as_u64().ok_or("index")?;
        let s = rng::mix(seed, rng::tag_of(prop), idx);
        return Ok(run_case(prop, s));
    }
    if case.get("slots").is_some() {
        return dirmedia::dir_replay(prop_static(prop).unwrap(), case);
    }
    if case.get("huge").is_some() {
        return huge::huge_replay(prop_static(prop).unwrap(), case);
    }
    if case.get("muts").is_some() && case.get("dev").is_some() {
        return mount::mount_replay(case);
    }
    match engine_of(prop) {
        "fs-history" => fscheck::fs_replay(prop, case),
        "fs-crash" => {
            let sc: ops::Scenario = serde_json::from_value(case.clone()).map_err(|e| format!("bad scenario: {}", e))?;
            Ok(crash::crash_replay(prop_static(prop).unwrap(), &sc))
        }
        "fs-fault" => {
            let sc: ops::Scenario = serde_json::from_value(case.clone()).map_err(|e| format!("bad scenario: {}", e))?;
            Ok(faults::fault_replay(&sc))
        }
        "dir-media" => dirmedia::dir_replay(prop_static(prop).unwrap(), case),
        "mount" => mount::mount_replay(case),
        "sd-sim" => sdrun::sd_replay(prop_static(prop).unwrap(), case),
        _ => Err(format!("no engine for {}", prop)),
    }
}

fn minimise_case(prop: &str, case: &Value, sig: &str) -> Value {
    if case.get("huge").is_some() {
        return huge::huge_minimise(prop_static(prop).unwrap(), case, sig);
    }
    let eng = if case.get("slots").is_some() { "dir-media" } else if case.get("muts").is_some() && case.get("dev").is_some() { "mount" } else { engine_of(prop) };
    match eng {
        "fs-history" => {
            let sc: ops::Scenario = match serde_json::from_value(case.clone()) {
                Ok(s) => s,
                Err(_) => return case.clone(),
            };
            let m = fscheck::fs_minimise(prop, &sc, sig, 600);
            serde_json::to_value(&m).unwrap()
        }
        "mount" => mount::mount_minimise(case, sig),
        "sd-sim" => sdrun::sd_minimise(prop_static(prop).unwrap(), case, sig),
        "dir-media" => match serde_json::from_value::<dirmedia::DirCase>(case.clone()) {
            Ok(c) => serde_json::to_value(&dirmedia::dir_minimise(prop_static(prop).unwrap(), &c, sig)).unwrap(),
            Err(_) => case.clone(),
        },
        "fs-crash" => {
            let sc: ops::Scenario = match serde_json::from_value(case.clone()) {
                Ok(s) => s,
                Err(_) => return case.clone(),
            };
            let p = prop_static(prop).unwrap();
            let test = |c: &ops::Scenario| crash::crash_replay(p, c).viols.iter().find(|v| v.prop == p && v.signature() == sig).map(|v| v.op_idx);
            let m = fscheck::minimise_with(&sc, 400, &test);
            serde_json::to_value(&m).unwrap()
        }
        _ => case.clone(),
    }
}

fn meta(prop: &str) -> (&'static str, String, Value, Vec<String>) {
    match engine_of(prop) {
        "fs-crash" => (
            "fault_enumeration",
            format!("one case = one simulated history (profile biased to create/write/flush/close/delete/mkdir on small volumes with stale-looking free clusters) executed fault-free while every block write is logged; then EVERY prefix of the write log is materialised as 'power failed after write k' and judged ({}); evaluations = crash points judged; non-trivial = the history produced at least one block write; distinct = distinct hash of event log + crash-point sequence", if prop == "C09" { "every file whose flush/close returned success and that was not modified since must be found with at least the flushed length and exactly the flushed contents, by the independent reader and by a fresh mount of the library" } else { "volume mounts (reader and library), every chain in range/acyclic/terminated/not through free or bad entries, no cross-links, every sub-directory entry has its own cluster with correct dot entries, every live name is from before or after the interrupted call (stale cluster contents show up as unknown names)" }),
            fscheck::fs_components(),
            vec!["exhaustive over the crash points of each explored history (every write-log prefix); histories themselves are sampled".to_string()],
        ),
        "dir-media" => (
            "exploration",
            "one case = one generated directory (FAT16 fixed root of 16..512 entries, FAT32 root at any cluster, or a sub-directory; chains of 1..7 clusters, optionally fragmented) built slot by slot from live, deleted, volume-label, end-marker and long-name slots: fragment runs of 1..20 slots over seven code-unit classes (ASCII, Latin-1, BMP, 0x0000, 0xFFFF, high and low surrogates, class pairs forced at fragment boundaries) in the variants correct / wrong checksum / gap / duplicate / swap / missing start flag / bad ordinal / cut by deleted, short or label slot / mixed checksums / orphan / same-checksum neighbour, plus stored-byte flips; listed through iterate_dir_lfn with buffer sizes 0,1,2,3,4,780 and random ones, and through iterate_dir/find/open_dir; every answer compared with the reference long-name state machine and lossy UTF-16 decoding of the independent reader; non-trivial = the directory has at least one live entry; distinct = hash of the live slots and listing lengths".to_string(),
            serde_json::json!({"real": ["VolumeManager::iterate_dir_lfn / iterate_dir / find_directory_entry / open_dir", "FatVolume directory walks", "LfnBuffer", "OnDiskDirEntry", "BlockCache"], "stub": ["block device (read-only image)", "clock"], "trusted": ["mkfs.rs formatter", "fatspec.rs reader incl. reference LFN state machine"]}),
            vec!["directory media are generated, not enumerated; slots whose attribute byte the library and the specification classify differently (low nibble 0xF but not 0x0F) are skipped and counted".to_string()],
        ),
        "sd-sim" => (
            if prop == "C13" { "fault_enumeration" } else { "exploration" },
            format!("one case = one simulated session of the real SdCard driver against SimCard (byte-level SPI-mode card model: CMD0/8/9/12/13/17/18/24/25/55/58/59, ACMD23/41, R1/R1b/R2/R3/R7, data/response/error tokens, bit-serial CRC-7/CRC-16, v1-SC / v2-SC / v2-HC, CSD layouts 1.0 and 2.0 with drawn C_SIZE / C_SIZE_MULT / READ_BL_LEN) on SimSpi/SimDelay: card kind, capacity, CRC option, acquire_retries (0, 1, 5, 50), N_CR 0..8, data-token delay, busy periods up to the driver's budgets, ACMD41 rounds, bad first CMD0 answers, a card that sleeps through the first CMD0s, OCR bits the driver must ignore, the don't-care bits of the data-response token, N_BR gap after the stop token and a call sequence (single/multi-block reads and writes at block 0 / last block / random, num_blocks, num_bytes, get_card_type, mark_card_uninit, another card put into the slot, hand-over of the initialised card to a new driver object with mark_card_as_init) are drawn from the run's PRNG. {} non-trivial = more than four commands reached the card{}; distinct = hash of per-call results, bytes exchanged and the command sequence", match prop {
                "C12" => "Oracle: read data == card memory, card memory after writes == exactly the addressed blocks (twin map), capacity == CSD by the layout the card carries, card kind as configured; every call on a healthy card must succeed.",
                "C13" => "One adversary per session, placed by the PRNG: 1-bit / 2-bit / burst<=16 flips in data or CRC of the n-th block, card silent / busy-forever / garbage from byte k, rejected data block (CRC-error / write-error token), CMD13 status error, non-0xFE token, SPI transaction error (also inside the CMD0 retry path of a card that wakes up late), beyond-budget latency, a card that refuses CRC_ON_OFF combined with bit flips. Oracle: detectable corruption with CRC on => Err; rejected write / status error / bad token / bus error => Err in both CRC modes; bytes exchanged per call <= bound computed from the driver's retry constants (simulator aborts at bound+1 = hang); after a failed initialisation the next call starts with CMD0; after power-cycling the card model and mark_card_uninit, read and write succeed and are correct.",
                _ => "Oracle: the checker inside the card (frame start/transmission bits, known index, CRC-7 with end bit in both CRC modes, no frame while the card signals busy (CMD12 inside an open read excepted; CMD0 excepted only once a call has failed), ACMD directly after CMD55, data commands only after CMD0 -> CMD8 -> ACMD41-ready (-> CMD58 on v2), data tokens 0xFE / 0xFC / 0xFD, 512+2 bytes, valid CRC-16 when CRC is on, CMD12 ends a multi-block read, stop token ends a multi-block write, CMD12 after a rejected block) must record nothing, also in the calls that follow an injected error.",
            }, if prop == "C13" { " and the adversary fired" } else { "" }),
            serde_json::json!({"real": ["SdCard / SdCardInner (acquire, card_command, read_data, write_data, read/write single and multi, read_csd, wait_not_busy, Delay)", "proto.rs (crc7, crc16, CsdV1, CsdV2)"], "stub": ["SPI bus (SimSpi)", "delay provider (SimDelay, advances simulated time only)", "the SD card (SimCard)"], "trusted": ["SimCard protocol model and checker, bit-serial CRCs (sdcard_model.rs)"]}),
            vec!["the card model is my reading of the SD Physical Layer Simplified Specification chapter 7; real hardware timing and electrical behaviour are outside it".to_string(), "C14 judgement is suspended while a wire-level adversary (silent / busy / garbage) is active or after an SPI transaction error, because the host cannot know the card's state then; it resumes after the card is power-cycled".to_string()],
        ),
        "mount" => (
            "exploration",
            "one case = one device built by the independent formatter (all combinations of 1..128 blocks/cluster, reserved blocks, 1-2 FATs (and 3-4 in one volume of eight), root entry counts, 16/32-bit total fields, partition slots 0-3 and offsets, cluster counts at and around 4085 / 65525, FAT32 root anywhere, FSInfo position) either mounted as is - the library must find exactly the formatter's tree through a fresh mount (names, sizes, attributes, contents), a FAT12-sized volume must be refused - or with stored-byte corruption of its MBR / boot sector / FSInfo sector (each numeric field set to 0, 1, 2, max, max-1, high bit, random; 1..64 random bit flips; whole random sectors with and without signatures) and then mounted under catch_unwind with overflow checks on: Ok or Err, never a panic; non-trivial = every case; distinct = hash of geometry, mutation list and outcome".to_string(),
            serde_json::json!({"real": ["VolumeManager::open_volume/open_raw_volume", "fat::parse_volume", "Bpb", "InfoSector", "directory walk and file reads of the fresh mount"], "stub": ["block device (read-only image)", "clock"], "trusted": ["mkfs.rs formatter", "fatspec.rs reader"]}),
            vec!["nothing is demanded of later calls on a volume mounted from corrupted sectors (as the statement says)".to_string()],
        ),
        "fs-fault" => (
            "fault_enumeration",
            "one case = one simulated history (small volumes, lookups/listings/reads as well as create/write/delete/mkdir) executed fault-free to count its N block-device calls, then re-executed from the start once per call index i with exactly call i failing (read: buffer scribbled + Err; write: lost + Err, and applied + Err), plus 'device dead from call i until the API call returns' windows; after the failing call: it must have returned Err without panic/hang, a read-only call is retried and must be correct, every open handle is used and closed (and must be released), and the medium is compared with the model except for the object the failed call operated on; evaluations = injected fault executions; non-trivial = at least one fault fired inside an API call; distinct = hash over the event logs of all fault executions of the history".to_string(),
            fscheck::fs_components(),
            vec!["exhaustive over the device-call indices of each explored history (histories with more than VERIF_FAULT_POINTS=400 fault points are sampled, counted in probes.fault_points_sampled_not_enumerated); histories themselves are sampled".to_string()],
        ),
        _ => ("exploration", fscheck::fs_rule(prop), fscheck::fs_components(), vec![]),
    }
}

fn tier_extra(prop: &str, tier: &str, runs: u64) -> Value {
    match (prop, tier) {
        ("C13", "thorough") => serde_json::json!({"enumerated": format!("cases 0..{} enumerate every single-bit position (4112 = 512 data bytes + 2 CRC bytes) of a data block for the three card kinds, once in a single-block read and once in the middle block of a three-block read; the remaining cases are sampled sessions", sdrun::ENUM_CASES.min(runs))}),
        ("C11", "thorough") => serde_json::json!({"fault_points_per_history": "all (no sampling cap below 100000)"}),
        ("C17", "thorough") => serde_json::json!({"fragment_boundaries": "every fragment gets PRNG-drawn code-unit classes at both of its boundary units (7 x 7 class pairs covered many times over)"}),
        _ => Value::Null,
    }
}

fn runs_for(prop: &str, tier: &str) -> u64 {
    let quick = match prop {
        "C09" | "C10" => 60_000,
        "C11" => 8_000,
        "C17" => 40_000,
        "C15" => 60_000,
        "C12" | "C14" => 60_000,
        "C13" => 80_000,
        "C01" | "C06" | "C07" | "C08" => 40_000,
        "C02" => 30_000,
        _ => 25_000,
    };
    if tier == "thorough" {
        quick * 40
    } else {
        quick
    }
}

fn cmd_check(prop: &str, tier: &str) -> i32 {
    let prop = match prop_static(prop) {
        Some(p) => p,
        None => {
            eprintln!("unknown property {}", prop);
            return 2;
        }
    };
    THOROUGH.store(tier == "thorough", std::sync::atomic::Ordering::Relaxed);
    let seed = env_u64("VERIF_SEED", 1);
    let jobs = env_u64("VERIF_JOBS", 16) as usize;
    let runs = env_u64("VERIF_RUNS", runs_for(prop, tier));
    let budget = env_u64("VERIF_BUDGET_S", if tier == "thorough" { 1500 } else { 240 }) as f64;
    let known = Known::load();
    let (level, rule, components, extra_assumptions) = meta(prop);
    let mut assumptions = vec![
        "block writes are atomic and ordered; the library issues single-block transfers only (multi-block calls are counted and would be reported)".to_string(),
        "the FAT reader, formatter, reference model and card model in /verif/sim are correct readings of the FAT and SD specifications (cross-checked by `sdmmc-sim selftest`)".to_string(),
        "histories, geometries, trees and timings are sampled, not enumerated: a clean batch is evidence, not proof".to_string(),
    ];
    assumptions.extend(extra_assumptions);
    let cfg = BatchCfg { prop, tier: tier.to_string(), seed, runs, jobs, budget_s: budget, level, rule, engine: engine_of(prop), components, assumptions, extra: tier_extra(prop, tier, runs) };
    println!("check {} tier={} seed={} runs<={} jobs={} engine={}", prop, tier, seed, runs, jobs, cfg.engine);
    let res = run_batch(&cfg, &known, |s, i| if prop == "C13" && thorough() && i < sdrun::ENUM_CASES { sdrun::sd_eval("C13", &sdrun::enumerated_flip_case(i)) } else { run_case(prop, s) });
    write_evidence(prop, &res.evidence);
    for (sig, (n, what)) in &res.known_hits {
        println!("KNOWN-FINDING: property={} {} [{} x{}]", prop, what, sig, n);
    }
    let cov = &res.evidence["coverage"];
    println!("runs={} evaluations={} distinct_nontrivial={} states={} wall={:.1}s", cov["simulated_runs"], cov["evaluations"], cov["distinct_nontrivial"], cov["distinct_abstract_states"], res.evidence["wall_s"].as_f64().unwrap_or(0.0));
    if let Some((idx, v, case)) = res.first_violation {
        let sig = v.signature();
        println!("violation in run {}: {} -- {}", idx, sig, v.detail);
        let small = minimise_case(prop, &case, &sig);
        // the minimised case must still fail the same way; otherwise fall back to the original
        let (case, out) = match replay_case(prop, &small) {
            Ok(o) if o.viols.iter().any(|x| x.prop == prop && x.signature() == sig) => (small, o),
            _ => match replay_case(prop, &case) {
                Ok(o) => (case, o),
                Err(e) => {
                    eprintln!("harness error: cannot replay: {}", e);
                    return 2;
                }
            },
        };
        let vv = out.viols.iter().find(|x| x.prop == prop && x.signature() == sig).cloned();
        let vv = match vv {
            Some(x) => x,
            None => {
                eprintln!("harness error: violation did not reproduce in-process (non-determinism)");
                return 2;
            }
        };
        let eng = if case.get("huge").is_some() { "fs-huge" } else if case.get("slots").is_some() { "dir-media" } else if case.get("muts").is_some() && case.get("dev").is_some() { "mount" } else { engine_of(prop) };
        let path = write_replay(prop, seed, idx, &vv, eng, &case, out.ev_hash);
        // replay in a fresh process
        let exe = std::env::current_exe().unwrap();
        let o = std::process::Command::new(exe).arg("replay").arg(&path).output();
        match o {
            Ok(o) if o.status.code() == Some(1) => {
                println!("VIOLATION property={} replay={}", prop, path);
                1
            }
            Ok(o) => {
                eprintln!("harness error: replay in a fresh process did not reproduce (exit {:?})\n{}", o.status.code(), String::from_utf8_lossy(&o.stdout));
                2
            }
            Err(e) => {
                eprintln!("harness error: {}", e);
                2
            }
        }
    } else {
        println!("OK property={} held on everything explored", prop);
        0
    }
}

fn cmd_replay(path: &str) -> i32 {
    let text = match std::fs::read_to_string(path) {
        Ok(t) => t,
        Err(e) => {
            eprintln!("cannot read {}: {}", path, e);
            return 2;
        }
    };
    let v: Value = match serde_json::from_str(&text) {
        Ok(v) => v,
        Err(e) => {
            eprintln!("bad replay file: {}", e);
            return 2;
        }
    };
    let prop = match v["property"].as_str().and_then(prop_static) {
        Some(p) => p,
        None => return 2,
    };
    let sig = v["signature"].as_str().unwrap_or("").to_string();
    let out = match replay_case(prop, &v["case"]) {
        Ok(o) => o,
        Err(e) => {
            eprintln!("{}", e);
            return 2;
        }
    };
    let want_hash = v["ev_hash"].as_str().unwrap_or("");
    let got_hash = format!("{:016x}", out.ev_hash);
    for x in &out.viols {
        println!("  {} -- {}", x.signature(), x.detail);
    }
    let same = out.viols.iter().any(|x| x.prop == prop && (sig.is_empty() || x.signature() == sig));
    if same {
        if !want_hash.is_empty() && want_hash != got_hash {
            println!("note: event-log hash differs from the recorded one ({} vs {})", got_hash, want_hash);
        }
        println!("VIOLATION property={} replay={}", prop, path);
        1
    } else {
        println!("replay of {}: violation {} did not occur", path, sig);
        0
    }
}

fn main() {
    install_panic_hook();
    let args: Vec<String> = std::env::args().collect();
    let code = match args.get(1).map(|s| s.as_str()) {
        Some("check") => cmd_check(args.get(2).map(|s| s.as_str()).unwrap_or(""), args.get(3).map(|s| s.as_str()).unwrap_or("quick")),
        Some("replay") => cmd_replay(args.get(2).map(|s| s.as_str()).unwrap_or("")),
        Some("selftest") => selftest::run(&args[2..]),
        Some("probe") => {
            let prop = args.get(2).cloned().unwrap_or("C01".into());
            let n: u64 = args.get(3).and_then(|s| s.parse().ok()).unwrap_or(100);
            let seed = env_u64("VERIF_SEED", 1);
            let mut sigs: std::collections::BTreeMap<String, (u64, u64, String)> = std::collections::BTreeMap::new();
            let mut probes = world::Probes::default();
            let t0 = std::time::Instant::now();
            for i in 0..n {
                let s = rng::mix(seed, rng::tag_of(&prop), i);
                let r = run_case(&prop, s);
                probes.merge(&r.probes);
                for v in &r.viols {
                    let e = sigs.entry(v.signature()).or_insert((0, i, v.detail.clone()));
                    e.0 += 1;
                }
            }
            println!("{} runs in {:?}", n, t0.elapsed());
            for (k, (c, first, det)) in &sigs {
                println!("{:6}  first@{:<5} {}   [{}]", c, first, k, det);
            }
            println!("{:?}", probes.m);
            0
        }
        Some("show") => {
            let prop = args.get(2).cloned().unwrap_or("C01".into());
            let i: u64 = args.get(3).and_then(|s| s.parse().ok()).unwrap_or(0);
            let seed = env_u64("VERIF_SEED", 1);
            let s = rng::mix(seed, rng::tag_of(&prop), i);
            let r = run_case(&prop, s);
            println!("{}", serde_json::to_string(&r.case).unwrap());
            for v in &r.viols {
                println!("VIOL {:?}", v);
            }
            0
        }
        _ => {
            eprintln!("usage: sdmmc-sim check <ID> quick|thorough | replay <file> | selftest [what]");
            2
        }
    };
    std::process::exit(code);
}
