//! SimCard: a byte-level model of an SD memory card in SPI mode, written from the SD
//! Physical Layer Simplified Specification (chapter 7). It is the *peer* of the driver on the
//! simulated SPI bus. It also checks that what the host sends is a legal conversation (C14)
//! and can misbehave on request (C13). CRCs are computed by bit-serial polynomial division,
//! independent of the driver's table/shift code.

use crate::rng::Rng;
use std::collections::{BTreeMap, VecDeque};

#[derive(Clone, Copy, Debug, PartialEq, Eq, serde::Serialize, serde::Deserialize)]
pub enum CardKind {
    V1Sc,
    V2Sc,
    V2Hc,
}

/// CRC-7 of `data`, polynomial x^7+x^3+1, bit-serial; returns the 7-bit remainder.
pub fn crc7_bits(data: &[u8]) -> u8 {
    let mut reg: u8 = 0;
    for &byte in data {
        for i in (0..8).rev() {
            let inbit = (byte >> i) & 1;
            let top = (reg >> 6) & 1;
            reg = (reg << 1) & 0x7F;
            if top ^ inbit == 1 {
                reg ^= 0x09;
            }
        }
    }
    reg
}

/// CRC-16-CCITT (x^16+x^12+x^5+1), zero initial value, bit-serial.
pub fn crc16_bits(data: &[u8]) -> u16 {
    let mut reg: u16 = 0;
    for &byte in data {
        for i in (0..8).rev() {
            let inbit = ((byte >> i) & 1) as u16;
            let top = (reg >> 15) & 1;
            reg <<= 1;
            if top ^ inbit == 1 {
                reg ^= 0x1021;
            }
        }
    }
    reg
}

#[derive(Clone, Debug, PartialEq, Eq, serde::Serialize, serde::Deserialize)]
pub enum Adversary {
    None,
    /// flip these bit positions (0..4112: 512 data bytes then 2 CRC bytes, MSB first) in the n-th data block the card sends
    FlipBits { block_no: u32, bits: Vec<u16> },
    /// from the k-th byte exchanged on: answer 0xFF for ever
    SilentFrom(u64),
    /// from the k-th byte exchanged on: answer 0x00 for ever
    BusyFrom(u64),
    /// from the k-th byte on: PRNG bytes
    GarbageFrom(u64),
    /// data-response token for the n-th written block: 0x0B (CRC error) or 0x0D (write error)
    RejectWrite { block_no: u32, token: u8 },
    /// R1 of the n-th CMD13 non-zero / second byte non-zero
    Cmd13Error { nth: u32, r1: u8, r2: u8 },
    /// instead of the start token 0xFE of the n-th data block: this byte
    BadToken { block_no: u32, token: u8 },
    /// busy / token delays beyond every driver budget ("maximally slow")
    TooSlow,
    /// the data line reads 0xFF from byte `from` of the n-th data block through its two CRC bytes (contact lost, pull-up)
    StuckHigh { block_no: u32, from: u16 },
    /// a version-2 card that echoes a wrong check pattern in every CMD8 answer
    Cmd8BadEcho,
    /// a card that answers every CMD55 with "illegal command" (not an SD memory card)
    Cmd55Illegal,
    /// the n-th command frame (counted over the session) arrives damaged: the card answers it with the
    /// command-CRC-error bit set and does not execute it. NOT GENERATED: the driver does not look at the R1 of
    /// most commands, so everything that follows such a frame is outside what the checker can judge (DESIGN 16)
    CmdCrcError { nth: u32 },
    /// the two CRC bytes of the n-th data block arrive in exchanged order (a 16-bit burst confined to the CRC field)
    SwapCrc { block_no: u32 },
    /// every command frame is answered with the command-CRC-error bit set and is not executed (noisy line to the card)
    AlwaysCrcError,
    /// the n-th CMD55 frame of the session arrives damaged at a card that checks command CRCs: answered with the
    /// CRC-error bit, not executed, so the command that follows is not an application command for the card and is
    /// answered "illegal command". (The one damaged-command fault the checker can judge: the driver's retry loops
    /// around ACMD41 absorb it, and ACMD23 is only a hint.)
    Cmd55Damaged { nth: u32 },
    /// the frame that follows the n-th accepted CMD55 (the application command itself) arrives damaged: answered
    /// with the CRC-error bit, not executed, and the prefix is used up
    AcmdDamaged { nth: u32 },
    /// the n-th CMD8 frame arrives damaged (the card checks command CRCs by then): answered with the CRC-error bit
    /// and no R7; the card has not seen a CMD8
    Cmd8Damaged { nth: u32 },
    /// from the k-th byte exchanged on: this one byte for ever (a line stuck in a pattern that is neither "busy"
    /// 0x00 nor "idle" 0xFF: 0x55, 0xAA, 0x7F ...)
    ConstFrom(u64, u8),
}

#[derive(Clone, Debug, serde::Serialize, serde::Deserialize)]
pub struct CardCfg {
    pub kind: CardKind,
    /// v1 layout: (c_size 12 bit, c_size_mult 3 bit, read_bl_len 9..11); v2 layout: c_size 22 bit
    pub c_size: u32,
    pub c_size_mult: u8,
    pub read_bl_len: u8,
    pub acmd41_rounds: u32,
    pub cmd0_bad_answers: u8,
    pub timing_seed: u64,
    /// heavy-tail latencies close to the driver's budgets
    pub slow: bool,
    /// one 0xFF gap byte after the stop-tran token before busy starts (N_BR)
    pub gap_after_stop: bool,
    /// further defined bits of the first OCR byte a card may set besides power-up status and CCS (UHS-II, S18A)
    #[serde(default)]
    pub ocr_extra: u8,
    /// the three don't-care bits of the data-response token (xxx0sss1) as this card sends them
    #[serde(default = "seven")]
    pub resp_hi: u8,
    /// the card answers CMD59 (CRC_ON_OFF) with "illegal command": a host that was asked for CRC must not go on without
    #[serde(default)]
    pub cmd59_illegal: bool,
    /// the card does not answer the first k CMD0 frames after power-up (still waking up): the driver's retry loop is for this
    #[serde(default)]
    pub cmd0_ignored: u8,
    /// the first k CMD8 answers of a version-2 card carry a wrong check pattern (the driver's CMD8 retry loop is for this)
    #[serde(default)]
    pub cmd8_bad_echoes: u8,
    /// CMD12 ending a multi-block read that has reached the last block of the card is answered with the
    /// parameter-error bit set (the specification tells hosts to ignore the out-of-range indication there)
    #[serde(default)]
    pub cmd12_error_at_end: bool,
    pub adversary: Adversary,
}

fn seven() -> u8 {
    7
}

impl CardCfg {
    /// capacity in 512-byte blocks, from the CSD fields by the formula of the layout the card carries
    pub fn capacity_blocks(&self) -> u64 {
        match self.kind {
            CardKind::V2Hc => (self.c_size as u64 + 1) * 1024,
            _ => ((self.c_size as u64 + 1) << (self.c_size_mult as u32 + 2) << self.read_bl_len as u32) / 512,
        }
    }
    pub fn csd(&self) -> [u8; 16] {
        let mut c = [0u8; 16];
        match self.kind {
            CardKind::V2Hc => {
                c[0] = 0x40; // CSD_STRUCTURE = 1
                c[1] = 0x0E;
                c[3] = 0x32;
                c[4] = 0x5B;
                c[5] = 0x59; // CCC low nibble | READ_BL_LEN = 9
                c[7] = ((self.c_size >> 16) & 0x3F) as u8;
                c[8] = (self.c_size >> 8) as u8;
                c[9] = self.c_size as u8;
                c[10] = 0x7F;
                c[11] = 0x80;
                c[12] = 0x0A;
                c[13] = 0x40;
            }
            _ => {
                c[0] = 0x00; // CSD_STRUCTURE = 0
                c[1] = 0x26;
                c[3] = 0x32;
                c[4] = 0x5F;
                c[5] = 0x50 | (self.read_bl_len & 0x0F);
                c[6] = 0x80 | ((self.c_size >> 10) & 0x03) as u8;
                c[7] = (self.c_size >> 2) as u8;
                c[8] = ((self.c_size & 0x03) << 6) as u8 | 0x2D;
                c[9] = 0xD8 | ((self.c_size_mult >> 1) & 0x03);
                c[10] = ((self.c_size_mult & 1) << 7) | 0x7F;
                c[11] = 0xFF;
                c[12] = 0x92;
                c[13] = 0x40;
            }
        }
        c[15] = (crc7_bits(&c[..15]) << 1) | 1;
        c
    }
}

#[derive(Clone, Copy, Debug, PartialEq, Eq)]
enum Rx {
    /// waiting for a command (or filler)
    Idle,
    /// collecting the remaining bytes of a 6-byte frame
    Frame(usize),
    /// after CMD24/CMD25 accepted: waiting for a data token
    WriteToken { multi: bool },
    /// collecting a data block from the host
    WriteData { multi: bool, got: usize },
    /// a block of a multi-block write was rejected: everything but CMD12 is ignored
    WriteAborted,
}

pub struct SimCard {
    pub cfg: CardCfg,
    pub mem: BTreeMap<u64, [u8; 512]>,
    /// contents of blocks never written through the bus (full-stack sessions preload a formatted image here)
    pub base: Option<crate::disk::Image>,
    rng: Rng,
    // protocol state
    spi_mode: bool,
    idle: bool,
    initialised: bool,
    stage: u8, // 0 power-on, 1 CMD0 done, 2 CMD8 done, 3 ACMD41 ready, 4 CMD58 done (v2)
    crc_on: bool,
    app_cmd: bool,
    cmd55_seen: u32,
    cmd8_frames: u32,
    acmd_seen: u32,
    prefix_damaged: bool,
    acmd41_seen: u32,
    cmd0_seen: u8,
    rx: Rx,
    frame: [u8; 6],
    wbuf: Vec<u8>,
    waddr: u64,
    tx: VecDeque<u8>,
    tx_popped: u64,
    /// absolute position in the output stream at which a corrupted block / bad token has been delivered completely
    watch: Option<u64>,
    /// card is streaming a multi-block read from this block on
    stream_next: Option<u64>,
    busy_left: u64,
    last_miso: u8,
    // accounting
    pub bytes: u64,
    pub blocks_sent: u32,
    pub blocks_received: u32,
    pub cmd13_seen: u32,
    pub commands: Vec<u8>,
    pub protocol_errors: Vec<String>,
    pub adversary_fired: u64,
    pub max_busy_seen: u64,
    pub first_cmd_after_mark: Option<u8>,
    pub multi_reads: u32,
    pub multi_writes: u32,
    pub latency_hist: [u64; 4],
    /// the bus itself failed in the middle of something: the host has no legal continuation until the card is power-cycled
    pub suspend_judgement: bool,
    /// CMD0 into a card that signals busy is reported (switched off by the harness once a call has failed: a host
    /// that re-initialises after an error has no better option)
    pub strict_cmd0: bool,
    cmd0_ignored_seen: u8,
    /// the corrupted block delivered last happens to carry a CRC that matches its (corrupted) data
    pub corruption_undetectable: bool,
    cmd8_seen: u8,
}

pub fn default_fill(block: u64) -> [u8; 512] {
    let mut b = [0u8; 512];
    let mut x = block.wrapping_mul(0x9E37_79B9_7F4A_7C15) ^ 0xC0FFEE;
    for ch in b.chunks_mut(8) {
        let v = crate::rng::splitmix(&mut x).to_le_bytes();
        ch.copy_from_slice(&v);
    }
    b
}

impl SimCard {
    pub fn new(cfg: CardCfg) -> SimCard {
        let rng = Rng::new(cfg.timing_seed);
        SimCard {
            cfg,
            mem: BTreeMap::new(),
            base: None,
            rng,
            spi_mode: false,
            idle: true,
            initialised: false,
            stage: 0,
            crc_on: false,
            app_cmd: false,
            cmd55_seen: 0,
            cmd8_frames: 0,
            acmd_seen: 0,
            prefix_damaged: false,
            acmd41_seen: 0,
            cmd0_seen: 0,
            rx: Rx::Idle,
            frame: [0; 6],
            wbuf: Vec::new(),
            waddr: 0,
            tx: VecDeque::new(),
            tx_popped: 0,
            watch: None,
            stream_next: None,
            busy_left: 0,
            last_miso: 0xFF,
            bytes: 0,
            blocks_sent: 0,
            blocks_received: 0,
            cmd13_seen: 0,
            commands: Vec::new(),
            protocol_errors: Vec::new(),
            adversary_fired: 0,
            max_busy_seen: 0,
            first_cmd_after_mark: None,
            multi_reads: 0,
            multi_writes: 0,
            latency_hist: [0; 4],
            suspend_judgement: false,
            strict_cmd0: true,
            cmd0_ignored_seen: 0,
            corruption_undetectable: false,
            cmd8_seen: 0,
        }
    }

    /// Power cycle: protocol state is lost, memory stays. The adversary is switched off ("the card responds again").
    pub fn power_cycle(&mut self) {
        self.spi_mode = false;
        self.idle = true;
        self.initialised = false;
        self.stage = 0;
        self.crc_on = false;
        self.app_cmd = false;
        self.acmd41_seen = 0;
        self.cmd0_seen = self.cfg.cmd0_bad_answers; // answer the first CMD0 properly from now on
        self.cmd0_ignored_seen = self.cfg.cmd0_ignored;
        self.cmd8_seen = self.cfg.cmd8_bad_echoes;
        self.rx = Rx::Idle;
        { self.tx.clear(); self.watch = None; }
        self.stream_next = None;
        self.busy_left = 0;
        self.cfg.adversary = Adversary::None;
        self.cfg.slow = false;
        self.suspend_judgement = false;
    }

    /// Another card is put into the slot: new configuration, fresh contents, power-on state.
    pub fn swap(&mut self, cfg: CardCfg) {
        self.power_cycle();
        self.cfg = cfg;
        self.mem.clear();
        self.base = None;
        self.cmd0_seen = 0;
        self.cmd0_ignored_seen = 0;
        self.cmd8_seen = 0;
        self.rng = Rng::new(self.cfg.timing_seed ^ 0x5a5a);
    }

    pub fn is_initialised(&self) -> bool {
        self.initialised
    }

    pub fn block(&self, n: u64) -> [u8; 512] {
        match self.mem.get(&n) {
            Some(b) => *b,
            None => match &self.base {
                Some(img) if n < img.num_blocks as u64 => img.get(n as u32),
                _ => default_fill(n),
            },
        }
    }

    /// does the card check CRCs at the moment (CMD59 with bit 0 set since the last CMD0)
    pub fn crc_checking(&self) -> bool {
        self.crc_on
    }

    fn err(&mut self, s: String) {
        // while the card itself is misbehaving on the wire the host cannot know the card's state:
        // the conversation is judged again once the card has been power-cycled
        let n = self.bytes;
        let blind = match self.cfg.adversary {
            Adversary::SilentFrom(k) | Adversary::BusyFrom(k) | Adversary::GarbageFrom(k) | Adversary::ConstFrom(k, _) => n > k,
            _ => false,
        };
        if blind || self.suspend_judgement {
            return;
        }
        if self.protocol_errors.len() < 16 {
            self.protocol_errors.push(s);
        }
    }

    fn latency(&mut self, budget: u64) -> u64 {
        // mostly short; with `slow` a heavy tail right up to the driver's budget (never beyond)
        let r = self.rng.below(100);
        let v = if matches!(self.cfg.adversary, Adversary::TooSlow) {
            budget * 4 + 7
        } else if self.cfg.slow && r < 6 {
            budget - self.rng.below(3)
        } else if self.cfg.slow && r < 20 {
            self.rng.range(budget / 50, budget / 2)
        } else if r < 70 {
            self.rng.below(4)
        } else {
            self.rng.below(60)
        };
        let k = if v < 4 { 0 } else if v < 64 { 1 } else if v < 2000 { 2 } else { 3 };
        self.latency_hist[k] += 1;
        v
    }

    fn r1(&self) -> u8 {
        if self.idle {
            0x01
        } else {
            0x00
        }
    }

    fn queue_response(&mut self, bytes: &[u8]) {
        let ncr = self.rng.below(9); // N_CR: 0..8 bytes of 0xFF before the response
        for _ in 0..ncr {
            self.tx.push_back(0xFF);
        }
        for &b in bytes {
            self.tx.push_back(b);
        }
    }

    fn queue_data_block(&mut self, payload: &[u8]) {
        let delay = self.latency(10_000);
        for _ in 0..delay {
            self.tx.push_back(0xFF);
        }
        let n = self.blocks_sent;
        self.blocks_sent += 1;
        let mut token = 0xFEu8;
        if let Adversary::BadToken { block_no, token: t } = &self.cfg.adversary {
            if *block_no == n {
                token = *t;
            }
        }
        self.tx.push_back(token);
        if token != 0xFE {
            self.watch = Some(self.tx_popped + self.tx.len() as u64);
            return;
        }
        let crc = crc16_bits(payload);
        let mut all: Vec<u8> = payload.to_vec();
        all.push((crc >> 8) as u8);
        all.push(crc as u8);
        let mut corrupted = false;
        if let Adversary::FlipBits { block_no, bits } = &self.cfg.adversary {
            if *block_no == n {
                let clean = all.clone();
                for &bit in bits {
                    let byte = (bit / 8) as usize;
                    if byte < all.len() {
                        all[byte] ^= 0x80 >> (bit % 8);
                    }
                }
                corrupted = all != clean;
            }
        }
        if let Adversary::SwapCrc { block_no } = &self.cfg.adversary {
            if *block_no == n {
                let pl = payload.len();
                all.swap(pl, pl + 1);
                corrupted = all[pl] != all[pl + 1];
            }
        }
        if let Adversary::StuckHigh { block_no, from } = &self.cfg.adversary {
            if *block_no == n {
                let clean = all.clone();
                for b in all.iter_mut().skip(*from as usize) {
                    *b = 0xFF;
                }
                corrupted = all != clean;
                // what arrives may by chance carry a matching CRC: then nothing lets the host notice
                let pl = payload.len();
                let c2 = crc16_bits(&all[..pl]);
                self.corruption_undetectable = corrupted && (c2 >> 8) as u8 == all[pl] && c2 as u8 == all[pl + 1];
            }
        }
        for b in all {
            self.tx.push_back(b);
        }
        if corrupted {
            // counts as fired only once the host has clocked the whole block out
            self.watch = Some(self.tx_popped + self.tx.len() as u64);
        }
    }

    fn addr_to_block(&mut self, arg: u32) -> Option<u64> {
        match self.cfg.kind {
            CardKind::V2Hc => Some(arg as u64),
            _ => {
                if arg % 512 != 0 {
                    None
                } else {
                    Some(arg as u64 / 512)
                }
            }
        }
    }

    fn on_frame(&mut self) {
        let f = self.frame;
        let cmd = f[0] & 0x3F;
        let arg = u32::from_be_bytes([f[1], f[2], f[3], f[4]]);
        self.commands.push(cmd);
        if self.first_cmd_after_mark.is_none() {
            self.first_cmd_after_mark = Some(cmd);
        }
        // ---- C14: frame well-formedness
        let want_crc = (crc7_bits(&f[..5]) << 1) | 1;
        if f[5] & 1 != 1 {
            self.err(format!("CMD{}: end bit not set (last byte {:#04x})", cmd, f[5]));
        } else if f[5] != want_crc {
            self.err(format!("CMD{}: wrong CRC-7 {:#04x}, expected {:#04x}", cmd, f[5], want_crc));
        }
        let was_app = self.app_cmd;
        self.app_cmd = false;
        if self.cfg.adversary == Adversary::AlwaysCrcError {
            self.adversary_fired += 1;
            let r = self.r1() | 0x08;
            self.queue_response(&[r]);
            return;
        }
        // the frame was damaged on its way (as far as the card can tell): CRC error, not executed
        if let Adversary::CmdCrcError { nth } = &self.cfg.adversary {
            if self.crc_on && self.commands.len() as u32 == *nth + 1 && cmd != 0 {
                self.adversary_fired += 1;
                let r = self.r1() | 0x08;
                self.queue_response(&[r]);
                return;
            }
        }
        let prefix_damaged = self.prefix_damaged;
        self.prefix_damaged = false;
        if cmd == 55 {
            if let Adversary::Cmd55Damaged { nth } = &self.cfg.adversary {
                let k = self.cmd55_seen;
                self.cmd55_seen += 1;
                if self.crc_on && k == *nth {
                    self.adversary_fired += 1;
                    self.prefix_damaged = true;
                    let r = self.r1() | 0x08;
                    self.queue_response(&[r]);
                    return;
                }
            }
        }
        if cmd == 8 && !was_app {
            if let Adversary::Cmd8Damaged { nth } = &self.cfg.adversary {
                let k = self.cmd8_frames;
                self.cmd8_frames += 1;
                if k == *nth && self.spi_mode {
                    self.adversary_fired += 1;
                    let r = self.r1() | 0x08;
                    self.queue_response(&[r]);
                    return;
                }
            }
        }
        if was_app {
            if let Adversary::AcmdDamaged { nth } = &self.cfg.adversary {
                let k = self.acmd_seen;
                self.acmd_seen += 1;
                if self.crc_on && k == *nth {
                    self.adversary_fired += 1;
                    let r = self.r1() | 0x08;
                    self.queue_response(&[r]);
                    return;
                }
            }
        }
        // a card that checks CRCs refuses a frame with a bad one
        if (self.crc_on || cmd == 0 || cmd == 8) && f[5] != want_crc {
            let r = self.r1() | 0x08;
            self.queue_response(&[r]);
            return;
        }
        if !self.spi_mode && cmd != 0 {
            // not in SPI mode yet: the card does not answer
            self.err(format!("CMD{} before CMD0 after power-up", cmd));
            return;
        }
        let data_cmd = matches!(cmd, 9 | 13 | 17 | 18 | 24 | 25) && !was_app;
        if data_cmd {
            let need = if self.cfg.kind == CardKind::V1Sc { 3 } else { 4 };
            if self.stage < need {
                self.err(format!("CMD{} before the identification sequence completed (stage {} of {})", cmd, self.stage, need));
                let r = self.r1() | 0x04;
                self.queue_response(&[r]);
                return;
            }
        }
        match (cmd, was_app) {
            (0, _) if self.cmd0_ignored_seen < self.cfg.cmd0_ignored => {
                // still waking up: this CMD0 goes unanswered
                self.cmd0_ignored_seen += 1;
            }
            (0, _) => {
                self.spi_mode = true;
                self.idle = true;
                self.initialised = false;
                self.stage = 1;
                self.crc_on = false;
                self.acmd41_seen = 0;
                self.stream_next = None;
                self.rx = Rx::Idle;
                self.busy_left = 0;
                { self.tx.clear(); self.watch = None; }
                if self.cmd0_seen < self.cfg.cmd0_bad_answers {
                    self.cmd0_seen += 1;
                    self.queue_response(&[0x00]);
                } else {
                    self.queue_response(&[0x01]);
                }
            }
            (59, false) => {
                if self.cfg.cmd59_illegal {
                    let r = self.r1() | 0x04;
                    self.queue_response(&[r]);
                } else {
                    self.crc_on = arg & 1 == 1;
                    let r = self.r1();
                    self.queue_response(&[r]);
                }
            }
            (8, false) => {
                // (CMD8 may be repeated before ACMD41)
                if self.stage != 1 && self.stage != 2 {
                    self.err(format!("CMD8 out of order (stage {})", self.stage));
                }
                if self.cfg.kind == CardKind::V1Sc {
                    let r = self.r1() | 0x04;
                    self.queue_response(&[r]);
                } else {
                    let r = self.r1();
                    let echo = if self.cfg.adversary == Adversary::Cmd8BadEcho {
                        self.adversary_fired += 1;
                        (arg as u8) ^ 0x01
                    } else if self.cmd8_seen < self.cfg.cmd8_bad_echoes {
                        self.cmd8_seen += 1;
                        (arg as u8) ^ 0x10
                    } else {
                        arg as u8
                    };
                    self.queue_response(&[r, 0x00, 0x00, (arg >> 8) as u8 & 0x0F, echo]);
                }
                if self.stage == 1 {
                    self.stage = 2;
                }
            }
            (55, false) if self.cfg.adversary == Adversary::Cmd55Illegal => {
                self.adversary_fired += 1;
                let r = self.r1() | 0x04;
                self.queue_response(&[r]);
            }
            (55, false) => {
                self.app_cmd = true;
                let r = self.r1();
                self.queue_response(&[r]);
            }
            (41, true) => {
                if self.stage < 2 {
                    self.err("ACMD41 before CMD8".to_string());
                }
                self.acmd41_seen += 1;
                let hcs = arg & 0x4000_0000 != 0;
                let can_finish = self.cfg.kind != CardKind::V2Hc || hcs;
                if can_finish && self.acmd41_seen >= self.cfg.acmd41_rounds {
                    self.idle = false;
                    self.initialised = true;
                    if self.stage < 3 {
                        self.stage = 3;
                    }
                }
                let r = self.r1();
                self.queue_response(&[r]);
            }
            (41, false) | (23, false) => {
                // (the host did send the prefix when it was the damaged frame: nothing to blame it for)
                if !prefix_damaged {
                    self.err(format!("application command {} not directly preceded by CMD55", cmd));
                }
                let r = self.r1() | 0x04;
                self.queue_response(&[r]);
            }
            (23, true) => {
                let r = self.r1();
                self.queue_response(&[r]);
            }
            (58, false) => {
                let mut ocr0 = 0x00u8;
                if self.initialised {
                    ocr0 |= 0x80;
                    if self.cfg.kind == CardKind::V2Hc {
                        ocr0 |= 0x40;
                    }
                    ocr0 |= self.cfg.ocr_extra & 0x21;
                    if self.stage == 3 {
                        self.stage = 4;
                    }
                }
                let r = self.r1();
                self.queue_response(&[r, ocr0, 0xFF, 0x80, 0x00]);
            }
            (9, false) => {
                self.queue_response(&[0x00]);
                let csd = self.cfg.csd();
                self.queue_data_block(&csd);
            }
            (13, false) => {
                let n = self.cmd13_seen;
                self.cmd13_seen += 1;
                let (mut a, mut b) = (0u8, 0u8);
                if let Adversary::Cmd13Error { nth, r1, r2 } = &self.cfg.adversary {
                    if *nth == n {
                        a = *r1;
                        b = *r2;
                        self.adversary_fired += 1;
                    }
                }
                self.queue_response(&[a, b]);
            }
            (17, false) | (18, false) => match self.addr_to_block(arg) {
                Some(b) if b < self.cfg.capacity_blocks() => {
                    self.queue_response(&[0x00]);
                    let data = self.block(b);
                    self.queue_data_block(&data);
                    if cmd == 18 {
                        self.stream_next = Some(b + 1);
                        self.multi_reads += 1;
                    }
                }
                _ => {
                    self.queue_response(&[0x40]);
                }
            },
            (12, false) => {
                // R1b: stuff byte, response, busy
                let at_end = self.cfg.cmd12_error_at_end && self.stream_next.map_or(false, |n| n >= self.cfg.capacity_blocks());
                self.stream_next = None;
                { self.tx.clear(); self.watch = None; }
                self.tx.push_back(0xFF); // stuff byte
                let ncr = self.rng.below(9);
                for _ in 0..ncr {
                    self.tx.push_back(0xFF);
                }
                self.tx.push_back(if at_end { 0x40 } else { 0x00 });
                self.busy_left = self.latency(10_000);
            }
            (24, false) | (25, false) => match self.addr_to_block(arg) {
                Some(b) if b < self.cfg.capacity_blocks() => {
                    self.queue_response(&[0x00]);
                    self.waddr = b;
                    self.rx = Rx::WriteToken { multi: cmd == 25 };
                    if cmd == 25 {
                        self.multi_writes += 1;
                    }
                }
                _ => {
                    self.queue_response(&[0x40]);
                }
            },
            _ => {
                self.err(format!("unknown command index {}{}", cmd, if was_app { " (as application command)" } else { "" }));
                let r = self.r1() | 0x04;
                self.queue_response(&[r]);
            }
        }
    }

    /// One byte time on the bus: the host shifts `mosi` out and gets the returned byte back.
    pub fn exchange(&mut self, mosi: u8) -> u8 {
        let n = self.bytes;
        self.bytes += 1;
        // what the card would answer in this byte time (decided before looking at MOSI)
        let listening = mosi == 0xFF;
        if !listening && self.watch.is_some() {
            // the host is sending, not listening: whatever the card puts on the wire now goes unread
            self.watch = None;
        }
        let mut busy_byte = false;
        let out_from_tx = !self.tx.is_empty();
        let mut out = if let Some(b) = self.tx.pop_front() {
            self.tx_popped += 1;
            if self.watch == Some(self.tx_popped) {
                self.watch = None;
                if listening {
                    self.adversary_fired += 1;
                }
            }
            b
        } else if self.busy_left > 0 {
            self.busy_left -= 1;
            busy_byte = true;
            0x00
        } else if let Some(next) = self.stream_next {
            // multi-block read: keep streaming
            if next < self.cfg.capacity_blocks() {
                let data = self.block(next);
                self.stream_next = Some(next + 1);
                self.queue_data_block(&data);
                match self.tx.pop_front() {
                    Some(b) => {
                        self.tx_popped += 1;
                        if self.watch == Some(self.tx_popped) {
                            self.watch = None;
                            if listening {
                                self.adversary_fired += 1;
                            }
                        }
                        b
                    }
                    None => 0xFF,
                }
            } else {
                0xFF
            }
        } else {
            0xFF
        };
        // ---- host side
        match self.rx {
            Rx::Idle => {
                if mosi & 0xC0 == 0x40 {
                    let cmd = mosi & 0x3F;
                    if busy_byte && (cmd != 0 || self.strict_cmd0) {
                        self.err(format!("CMD{} sent while the card signals busy", cmd));
                    }
                    if self.stream_next.is_none() && cmd != 12 && cmd != 0 && (self.tx.iter().any(|&b| b != 0xFF) || (out_from_tx && out != 0xFF)) {
                        self.err(format!("CMD{} started while the card is still transmitting a response or data block", cmd));
                    }
                    if self.stream_next.is_some() && cmd != 12 && cmd != 0 {
                        self.err(format!("CMD{} sent during an open multi-block read (CMD12 required first)", cmd));
                        self.stream_next = None;
                        { self.tx.clear(); self.watch = None; }
                    }
                    self.frame[0] = mosi;
                    self.rx = Rx::Frame(1);
                } else if mosi != 0xFF {
                    self.err(format!("stray byte {:#04x} outside any frame or data block", mosi));
                }
            }
            Rx::Frame(k) => {
                self.frame[k] = mosi;
                if k == 5 {
                    self.rx = Rx::Idle;
                    self.on_frame();
                } else {
                    self.rx = Rx::Frame(k + 1);
                }
            }
            Rx::WriteToken { multi } => {
                if mosi == 0x4C {
                    // CMD12 aborts the write - but like every command it must not go out while the card signals busy
                    if busy_byte {
                        self.err("CMD12 sent while the card signals busy".to_string());
                    }
                    self.frame[0] = mosi;
                    self.rx = Rx::Frame(1);
                } else if busy_byte {
                    // still programming the previous block: the host must wait
                    if mosi != 0xFF {
                        self.err(format!("byte {:#04x} sent while the card is busy programming", mosi));
                    }
                } else if mosi == 0xFF {
                    // gap
                } else if !multi && mosi == 0xFE || multi && mosi == 0xFC {
                    self.wbuf.clear();
                    self.rx = Rx::WriteData { multi, got: 0 };
                } else if multi && mosi == 0xFD {
                    // stop tran: one gap byte (optional), then busy
                    self.rx = Rx::Idle;
                    { self.tx.clear(); self.watch = None; }
                    if self.cfg.gap_after_stop {
                        self.tx.push_back(0xFF);
                    }
                    self.busy_left = self.latency(10_000);
                } else if mosi & 0xC0 == 0x40 && self.tx.is_empty() {
                    // a card waiting for a data token does not execute commands (other than CMD12, handled above)
                    self.err(format!("command byte {:#04x} while a {} write is open (no data token / stop token sent)", mosi, if multi { "multi-block" } else { "single-block" }));
                } else if self.tx.is_empty() {
                    self.err(format!("bad data token {:#04x} for a {} write", mosi, if multi { "multi-block" } else { "single-block" }));
                }
            }
            Rx::WriteAborted => {
                if mosi & 0xC0 == 0x40 {
                    self.frame[0] = mosi;
                    self.rx = Rx::Frame(1);
                    if mosi & 0x3F != 12 {
                        self.err(format!("CMD{} after a rejected block of a multi-block write (CMD12 required)", mosi & 0x3F));
                    }
                } else if mosi == 0xFC || mosi == 0xFD {
                    self.err(format!("token {:#04x} after a rejected block of a multi-block write (the transmission must be stopped with CMD12)", mosi));
                }
            }
            Rx::WriteData { multi, got } => {
                self.wbuf.push(mosi);
                if got + 1 == 514 {
                    let n_blk = self.blocks_received;
                    self.blocks_received += 1;
                    let crc = crc16_bits(&self.wbuf[..512]);
                    let sent = (self.wbuf[512] as u16) << 8 | self.wbuf[513] as u16;
                    let mut token = 0xE5u8; // xxx00101: accepted
                    if self.crc_on && crc != sent {
                        self.err(format!("data block with wrong CRC-16 {:#06x} (expected {:#06x}) while CRC is on", sent, crc));
                        token = 0xEB;
                    }
                    if let Adversary::RejectWrite { block_no, token: t } = &self.cfg.adversary {
                        if *block_no == n_blk {
                            token = 0xE0 | *t;
                            self.adversary_fired += 1;
                        }
                    }
                    if token & 0x1F == 0x05 && self.waddr >= self.cfg.capacity_blocks() {
                        token = 0xED; // write error: address out of range
                    }
                    if token & 0x1F == 0x05 {
                        let mut b = [0u8; 512];
                        b.copy_from_slice(&self.wbuf[..512]);
                        if self.waddr < self.cfg.capacity_blocks() {
                            self.mem.insert(self.waddr, b);
                        }
                        self.waddr += 1;
                    }
                    { self.tx.clear(); self.watch = None; }
                    // bits 7..5 of the data-response token are don't-care: this card's choice
                    let token = (token & 0x1F) | ((self.cfg.resp_hi & 7) << 5);
                    self.tx.push_back(token);
                    self.busy_left = if token & 0x1F == 0x05 { self.latency(50_000) } else { 0 };
                    self.rx = if !multi { Rx::Idle } else if token & 0x1F == 0x05 { Rx::WriteToken { multi } } else { Rx::WriteAborted };
                } else {
                    self.rx = Rx::WriteData { multi, got: got + 1 };
                }
            }
        }
        // ---- adversary on the wire
        match self.cfg.adversary {
            Adversary::SilentFrom(k) if n >= k => {
                out = 0xFF;
                self.adversary_fired += 1;
            }
            Adversary::BusyFrom(k) if n >= k => {
                out = 0x00;
                self.adversary_fired += 1;
            }
            Adversary::GarbageFrom(k) if n >= k => {
                out = self.rng.next_u32() as u8;
                self.adversary_fired += 1;
            }
            Adversary::ConstFrom(k, b) if n >= k => {
                out = b;
                self.adversary_fired += 1;
            }
            _ => {}
        }
        if out == 0x00 {
            self.max_busy_seen += 0;
        }
        self.last_miso = out;
        out
    }
}
