//! Independent formatter and tree populator (trusted base). Written from the
//! FAT specification; shares no code with /repo.

use crate::clock::Cal;
use crate::disk::{Blk, Image};
use crate::fatspec::{self, Geom};
use crate::rng::Rng;
use serde::{Deserialize, Serialize};

#[derive(Serialize, Deserialize, Clone, Debug, PartialEq)]
pub enum FsInfoKind {
    Correct,
    Unknown,
    /// free count lower than the truth by this much (saturating at 0)
    StaleLow(u32),
    Zero,
    StaleHigh(u32),
    HintOut,
    HintUsed,
    HintLast,
    /// the hint names the (in-use) cluster right after the highest free one: nothing is free from the hint upwards
    HintAfterLastFree,
    /// count 0 although clusters are free, and the hint right behind the highest free cluster: both records stale
    /// at once (neither alone sends the allocator round)
    ZeroHintAfterLastFree,
    /// a count just below the "unknown" mark: 0xFFFFFFFE - k
    CountNearMax(u8),
    /// count 0 (stale) together with an unknown hint (0xFFFFFFFF, 0 or 1)
    ZeroUnknownHint(u8),
}

#[derive(Serialize, Deserialize, Clone, Debug, PartialEq)]
pub struct TreeSpec {
    pub seed: u64,
    pub dirs: u8,
    pub files: u8,
    pub depth: u8,
    pub max_clusters: u8,
    pub lfn: bool,
    pub deleted: bool,
    pub vol_label: bool,
    pub fragment: bool,
    /// Some(f): ballast / bad marks leave exactly f free clusters; None: mostly free
    pub free: Option<u32>,
    pub free_high: bool,
    pub free_last: bool,
    pub bad: u8,
    pub high_nibble: bool,
    pub latin1: bool,
    /// pad directories with runs of deleted slots so that they span several clusters
    #[serde(default)]
    pub big_dirs: bool,
    /// Some(k): pad every directory with orphan long-name slots (which nothing may reuse) until exactly k slots are free
    #[serde(default)]
    pub full_dirs: Option<u8>,
    /// sub-directories carry extra attribute bits (read-only, hidden, system, archive) besides DIRECTORY
    #[serde(default)]
    pub dir_attrs: bool,
    /// the formatter allocates upwards from a few clusters below the last one (and wraps to 2), so that pre-existing
    /// chains run through the highest cluster numbers of the volume
    #[serde(default)]
    pub alloc_top: bool,
    /// FAT16 only: bytes 20..22 of pre-existing file entries hold a non-zero value (the extended-attribute handle of
    /// DOS 4+/OS/2/NT), which is not part of the cluster number there
    #[serde(default)]
    pub ea_handles: bool,
    /// chains of the formatted tree end with any of the eight legal end-of-chain values (0x..F8 - 0x..FF), not
    /// only with all ones
    #[serde(default)]
    pub eoc_variants: bool,
    /// some files own one to three clusters more than their size needs
    #[serde(default)]
    pub overalloc: bool,
    /// the root's volume-label entry has the same eleven name bytes as the first file behind it
    #[serde(default)]
    pub label_twin: bool,
}

#[derive(Serialize, Deserialize, Clone, Debug, PartialEq)]
pub struct VolSpec {
    pub slot: u8,
    pub ptype: u8,
    pub lba: u32,
    pub fat32: bool,
    pub spc: u8,
    pub reserved: u16,
    pub num_fats: u8,
    pub root_entries: u16,
    pub clusters: u32,
    pub fat_extra: u16,
    pub tail: u8,
    pub use_tot16: bool,
    pub root_cluster: u32,
    pub fsinfo_sector: u16,
    pub backup_boot: u16,
    pub fsinfo: FsInfoKind,
    pub label: bool,
    /// BPB_ExtFlags of a FAT32 boot sector (bit 7: mirroring disabled, bits 0-3: active FAT); both copies are
    /// formatted identically whatever it says
    #[serde(default)]
    pub ext_flags: u16,
    /// the partition-table entry states fewer blocks than the boot sector (a rounded or rewritten table); the
    /// geometry is the boot sector's
    #[serde(default)]
    pub mbr_short: bool,
    pub tree: TreeSpec,
}

#[derive(Serialize, Deserialize, Clone, Debug, PartialEq)]
pub struct DevSpec {
    pub vols: Vec<VolSpec>,
    pub stale_fill: bool,
    pub extra_blocks: u32,
    /// a foreign (non-FAT) partition in this MBR slot, if any
    pub foreign_slot: Option<u8>,
}

#[derive(Clone, Debug)]
pub struct ManifestEntry {
    pub path: String,
    pub is_dir: bool,
    pub size: u32,
    pub hash: u64,
    pub attr: u8,
}

#[derive(Clone, Debug)]
pub struct VolOut {
    pub geom: Geom,
    pub manifest: Vec<ManifestEntry>,
    pub free_at_format: u32,
}

pub const FORMAT_TIME: Cal = Cal { year: 2001, month: 2, day: 3, h: 4, m: 5, s: 6 };

pub fn fat_size_for(clusters: u32, fat32: bool) -> u32 {
    let eb: u64 = if fat32 { 4 } else { 2 };
    (((clusters as u64 + 2) * eb + 511) / 512) as u32
}

impl VolSpec {
    pub fn fat_size(&self) -> u32 {
        fat_size_for(self.clusters, self.fat32) + self.fat_extra as u32
    }
    pub fn root_dir_sectors(&self) -> u32 {
        if self.fat32 {
            0
        } else {
            (self.root_entries as u32 * 32 + 511) / 512
        }
    }
    pub fn total_blocks(&self) -> u32 {
        self.reserved as u32 + self.num_fats as u32 * self.fat_size() + self.root_dir_sectors() + self.clusters * self.spc as u32 + self.tail as u32
    }
    pub fn plain(fat32: bool, lba: u32) -> VolSpec {
        VolSpec {
            slot: 0,
            ptype: if fat32 { 0x0C } else { 0x06 },
            lba,
            fat32,
            spc: 1,
            reserved: if fat32 { 32 } else { 1 },
            num_fats: 2,
            root_entries: if fat32 { 0 } else { 512 },
            clusters: if fat32 { 65525 } else { 4085 },
            fat_extra: 0,
            tail: 0,
            use_tot16: false,
            root_cluster: 2,
            fsinfo_sector: 1,
            backup_boot: 6,
            fsinfo: FsInfoKind::Correct,
            label: false,
            ext_flags: 0,
            mbr_short: false,
            tree: TreeSpec { seed: 1, dirs: 0, files: 0, depth: 0, max_clusters: 1, lfn: false, deleted: false, vol_label: false, fragment: false, free: None, free_high: false, free_last: false, bad: 0, high_nibble: false, latin1: false, big_dirs: false, full_dirs: None, dir_attrs: false, alloc_top: false, ea_handles: false, eoc_variants: false, overalloc: false, label_twin: false },
        }
    }
}

struct Alloc {
    fat: Vec<u32>,
    fat32: bool,
    n: u32, // clusters + 2
    cursor: u32,
    /// Some(seed): chains end with any of the eight end-of-chain values (..F8 to ..FF), chosen per cluster
    eoc_seed: Option<u64>,
}

impl Alloc {
    fn eoc(&self) -> u32 {
        if self.fat32 {
            0x0FFF_FFFF
        } else {
            0xFFFF
        }
    }
    /// the end-of-chain mark written into the entry of cluster `c`
    fn eoc_at(&self, c: u32) -> u32 {
        match self.eoc_seed {
            Some(sd) => (self.eoc() & !7) | (crate::rng::fnv(&[&sd.to_le_bytes()[..], &c.to_le_bytes()[..]].concat()) % 8) as u32,
            None => self.eoc(),
        }
    }
    fn bad(&self) -> u32 {
        if self.fat32 {
            0x0FFF_FFF7
        } else {
            0xFFF7
        }
    }
    fn is_free(&self, c: u32) -> bool {
        self.fat[c as usize] & 0x0FFF_FFFF == 0
    }
    fn next_free_from(&self, start: u32) -> Option<u32> {
        let mut c = start;
        for _ in 2..self.n {
            if c < 2 || c >= self.n {
                c = 2;
            }
            if self.is_free(c) {
                return Some(c);
            }
            c += 1;
        }
        None
    }
    fn take(&mut self, rng: &mut Rng, scattered: bool) -> Option<u32> {
        let start = if scattered { rng.range(2, self.n as u64 - 1) as u32 } else { self.cursor };
        let c = self.next_free_from(start)?;
        if !scattered {
            self.cursor = c + 1;
        }
        Some(c)
    }
    /// allocate a chain of k clusters, linked in order
    fn chain(&mut self, rng: &mut Rng, k: u32, scattered: bool) -> Vec<u32> {
        let mut out: Vec<u32> = Vec::new();
        for _ in 0..k {
            let got = if !scattered {
                self.take(rng, false)
            } else if out.is_empty() || rng.chance(1, 2) {
                // jump somewhere else
                self.take(rng, true)
            } else {
                // continue right after the previous cluster
                self.next_free_from(*out.last().unwrap() + 1)
            };
            let c = match got {
                Some(c) => c,
                None => break,
            };
            let e = self.eoc_at(c);
            self.fat[c as usize] = e;
            if let Some(&p) = out.last() {
                self.fat[p as usize] = c;
            }
            out.push(c);
        }
        out
    }
    fn free_count(&self) -> u32 {
        (2..self.n).filter(|&c| self.is_free(c)).count() as u32
    }
}

fn entry_raw(name: &[u8; 11], attr: u8, cluster: u32, size: u32, fat32: bool, t: Cal) -> [u8; 32] {
    let mut e = [0u8; 32];
    e[..11].copy_from_slice(name);
    e[11] = attr;
    let (d, tm) = t.to_fat();
    e[14..16].copy_from_slice(&tm.to_le_bytes());
    e[16..18].copy_from_slice(&d.to_le_bytes());
    e[18..20].copy_from_slice(&d.to_le_bytes());
    if fat32 {
        e[20..22].copy_from_slice(&((cluster >> 16) as u16).to_le_bytes());
    }
    e[22..24].copy_from_slice(&tm.to_le_bytes());
    e[24..26].copy_from_slice(&d.to_le_bytes());
    e[26..28].copy_from_slice(&(cluster as u16).to_le_bytes());
    e[28..32].copy_from_slice(&size.to_le_bytes());
    e
}

/// LFN slots (disk order: highest ordinal first) for `long` attached to `short`.
pub fn lfn_slots(long: &[u16], short: &[u8; 11]) -> Vec<[u8; 32]> {
    let csum = fatspec::sfn_checksum(short);
    let mut units: Vec<u16> = long.to_vec();
    if units.len() % 13 != 0 {
        units.push(0);
        while units.len() % 13 != 0 {
            units.push(0xFFFF);
        }
    }
    let n = units.len() / 13;
    let mut out = Vec::new();
    for k in (0..n).rev() {
        out.push(lfn_slot_raw((k + 1) as u8 | if k == n - 1 { 0x40 } else { 0 }, csum, &units[k * 13..k * 13 + 13]));
    }
    out
}

pub fn lfn_slot_raw(ord_byte: u8, csum: u8, units: &[u16]) -> [u8; 32] {
    let mut e = [0u8; 32];
    e[0] = ord_byte;
    e[11] = 0x0F;
    e[13] = csum;
    let offs = [1usize, 3, 5, 7, 9, 14, 16, 18, 20, 22, 24, 28, 30];
    for (i, &o) in offs.iter().enumerate() {
        e[o..o + 2].copy_from_slice(&units[i].to_le_bytes());
    }
    e
}

pub fn make_name(base: &str, ext: &str) -> [u8; 11] {
    let mut n = [b' '; 11];
    for (i, b) in base.bytes().take(8).enumerate() {
        n[i] = b;
    }
    for (i, b) in ext.bytes().take(3).enumerate() {
        n[8 + i] = b;
    }
    n
}

struct Builder<'a> {
    img: &'a mut Image,
    g: Geom,
    al: Alloc,
    rng: Rng,
    spec: &'a TreeSpec,
    manifest: Vec<ManifestEntry>,
    counter: u32,
    dirs_left: u32,
    files_left: u32,
}

fn file_bytes(seed: u64, len: usize) -> Vec<u8> {
    let mut r = Rng::new(seed ^ 0xF11E);
    let mut v = vec![0u8; len];
    r.fill(&mut v);
    v
}

impl<'a> Builder<'a> {
    fn write_cluster_data(&mut self, chain: &[u32], data: &[u8]) {
        let cb = self.g.cluster_bytes() as usize;
        for (i, &c) in chain.iter().enumerate() {
            for s in 0..self.g.spc as usize {
                let off = i * cb + s * 512;
                if off >= data.len() {
                    // rest of the chain keeps whatever the medium held (stale)
                    return;
                }
                let mut b: Blk = [0u8; 512];
                let n = (data.len() - off).min(512);
                b[..n].copy_from_slice(&data[off..off + n]);
                // slack bytes after the end of file: non-zero garbage, as on real media
                for x in b[n..].iter_mut() {
                    *x = 0xA5;
                }
                self.img.set(self.g.cluster_block(c) + s as u32, &b);
            }
        }
    }

    fn gen_name(&mut self, is_dir: bool) -> [u8; 11] {
        self.counter += 1;
        let k = self.counter;
        if self.spec.latin1 && self.rng.chance(1, 5) {
            // ISO-8859-1 upper half (kept upper-case: 0xC0..0xDE are capitals; the library only upper-cases ASCII)
            let mut n = make_name(&format!("L{:03}", k), if is_dir { "" } else { "DAT" });
            n[4] = 0xC9;
            n[5] = 0xD6;
            return n;
        }
        if is_dir {
            make_name(&format!("DIR{:03}", k), if self.rng.chance(1, 6) { "D" } else { "" })
        } else {
            let exts = ["BIN", "TXT", "A", "", "DAT"];
            let e = *self.rng.pick(&exts);
            match self.rng.below(4) {
                0 => make_name(&format!("F{:07}", k), e),
                1 => make_name(&format!("F{}", k), e),
                _ => make_name(&format!("FILE{:03}", k), e),
            }
        }
    }

    /// Build one directory's slots (recursively creating children) and write it to its chain.
    /// `first` is the already allocated first cluster (None for the FAT16 root).
    fn build_dir(&mut self, path: &str, first: Option<u32>, parent_cluster: u32, depth: u8, is_root: bool) {
        let fat32 = self.g.fat32;
        let mut slots: Vec<[u8; 32]> = Vec::new();
        if !is_root {
            slots.push(entry_raw(b".          ", 0x10, first.unwrap(), 0, fat32, FORMAT_TIME));
            slots.push(entry_raw(b"..         ", 0x10, parent_cluster, 0, fat32, FORMAT_TIME));
        } else if self.spec.vol_label {
            slots.push(entry_raw(b"SIMVOLUME  ", 0x08, 0, 0, fat32, FORMAT_TIME));
        }
        let cap: usize = if is_root && !fat32 { self.g.root_dir_sectors as usize * 16 } else { usize::MAX };
        // how many children here
        let nd = if depth < self.spec.depth && self.dirs_left > 0 { self.rng.range(0, self.dirs_left.min(3) as u64) as u32 } else { 0 };
        let nf = if self.files_left > 0 {
            if is_root {
                self.rng.range(self.files_left.min(2) as u64, self.files_left.min(6) as u64) as u32
            } else {
                self.rng.range(0, self.files_left.min(5) as u64) as u32
            }
        } else {
            0
        };
        self.dirs_left -= nd;
        self.files_left -= nf;
        let mut kinds: Vec<bool> = Vec::new(); // true = dir
        for _ in 0..nd {
            kinds.push(true);
        }
        for _ in 0..nf {
            kinds.push(false);
        }
        // shuffle
        for i in (1..kinds.len()).rev() {
            let j = self.rng.usize_below(i + 1);
            kinds.swap(i, j);
        }
        let mut children: Vec<(String, u32)> = Vec::new();
        for is_dir in kinds {
            if slots.len() + 6 >= cap {
                break;
            }
            if self.spec.big_dirs && self.rng.chance(1, 2) && slots.len() + 40 < cap {
                for k in 0..self.rng.range(6, 30) {
                    let mut d = entry_raw(&make_name(&format!("PAD{}", k), "DEL"), 0x20, 0, 0, fat32, FORMAT_TIME);
                    d[0] = 0xE5;
                    slots.push(d);
                }
            }
            if self.spec.deleted && self.rng.chance(1, 4) {
                let mut d = entry_raw(&make_name("GONE", "OLD"), 0x20, 3, 77, fat32, FORMAT_TIME);
                d[0] = 0xE5;
                slots.push(d);
            }
            let name = self.gen_name(is_dir);
            let nstr = fatspec::name_str(&name);
            if self.spec.lfn && self.rng.chance(1, 3) {
                let long: Vec<u16> = format!("Long name of {} number {}", if is_dir { "directory" } else { "file" }, self.counter).encode_utf16().collect();
                let take = self.rng.range(1, long.len() as u64) as usize;
                for s in lfn_slots(&long[..take], &name) {
                    slots.push(s);
                }
            }
            if is_dir {
                let ch = self.al.chain(&mut self.rng, 1, self.spec.fragment);
                if ch.is_empty() {
                    continue;
                }
                // extra bits are a function of the tree seed and the name (no draw from the stream: older replay files keep their meaning)
                let dattr = if self.spec.dir_attrs {
                    let hsh = crate::rng::fnv(&[&self.spec.seed.to_le_bytes()[..], &name[..]].concat());
                    0x10 | [0x00u8, 0x01, 0x02, 0x06, 0x20, 0x21, 0x07, 0x27][(hsh % 8) as usize]
                } else {
                    0x10
                };
                slots.push(entry_raw(&name, dattr, ch[0], 0, fat32, FORMAT_TIME));
                self.manifest.push(ManifestEntry { path: format!("{}/{}", path, nstr), is_dir: true, size: 0, hash: 0, attr: dattr });
                children.push((format!("{}/{}", path, nstr), ch[0]));
            } else {
                let cb = self.g.cluster_bytes();
                let maxc = self.spec.max_clusters.max(1) as u64;
                let size: u32 = match self.rng.below(9) {
                    0 => 0,
                    1 => 1,
                    2 => cb - 1,
                    3 => cb,
                    4 => cb + 1,
                    5 => (self.rng.range(1, maxc) as u32) * cb,
                    _ => self.rng.range(1, maxc * cb as u64) as u32,
                };
                let want = (size + cb - 1) / cb;
                // zero-length file that still owns a cluster, sometimes
                let want = if size == 0 && self.rng.chance(1, 3) { 1 } else { want };
                // pre-allocated space behind the data (what fallocate with KEEP_SIZE leaves on vfat): legal, the size rules
                let want = if self.spec.overalloc && want > 0 && crate::rng::fnv(&[&self.spec.seed.to_le_bytes()[..], &name[..]].concat()) % 3 == 0 { want + 1 + (size % 3) } else { want };
                let ch = self.al.chain(&mut self.rng, want, self.spec.fragment);
                let size = size.min(ch.len() as u32 * cb);
                let seed = self.rng.next_u64();
                let data = file_bytes(seed, size as usize);
                self.write_cluster_data(&ch, &data);
                let attr = match self.rng.below(10) {
                    0 => 0x01,
                    1 => 0x21,
                    2 => 0x02 | 0x20,
                    3 => 0x04,
                    4 => 0x00,
                    _ => 0x20,
                };
                let mut fe = entry_raw(&name, attr, ch.first().copied().unwrap_or(0), size, fat32, FORMAT_TIME);
                if !fat32 && self.spec.ea_handles {
                    let hsh = crate::rng::fnv(&[&self.spec.seed.to_le_bytes()[..], &name[..]].concat());
                    if hsh % 3 != 0 {
                        fe[20..22].copy_from_slice(&[(hsh >> 8) as u8 | 1, (hsh >> 16) as u8]);
                    }
                }
                slots.push(fe);
                self.manifest.push(ManifestEntry { path: format!("{}/{}", path, nstr), is_dir: false, size, hash: crate::rng::fnv(&data), attr });
            }
        }
        if self.spec.lfn && self.rng.chance(1, 4) && slots.len() + 3 < cap {
            // an orphan run at the end of the directory
            let long: Vec<u16> = "orphan".encode_utf16().collect();
            for s in lfn_slots(&long, &make_name("NOBODY", "")) {
                slots.push(s);
            }
        }
        if let Some(k) = self.spec.full_dirs {
            // fill up with orphan long-name slots: they are neither entries nor reusable, so the next
            // few creates hit "directory full" (FAT16 root) or have to grow the directory
            let per = 16 * self.g.spc as usize;
            // sometimes two or three full clusters, so that growth starts from a chain that already has a middle
            let want_clusters = *self.rng.pick(&[1usize, 1, 2, 3]);
            let total = if is_root && !fat32 { self.g.root_dir_sectors as usize * 16 } else { ((slots.len() + k as usize + per - 1) / per).max(want_clusters) * per };
            let pad = make_name("NOBODY", "");
            let units = [0x0050u16, 0x0041, 0x0044, 0, 0xFFFF, 0xFFFF, 0xFFFF, 0xFFFF, 0xFFFF, 0xFFFF, 0xFFFF, 0xFFFF, 0xFFFF];
            while slots.len() + (k as usize) < total {
                slots.push(lfn_slot_raw(0x41, fatspec::sfn_checksum(&pad).wrapping_add(1), &units));
            }
        }
        if is_root && self.spec.vol_label && self.spec.label_twin {
            // the volume-label entry carries the same eleven name bytes as the first file behind it
            if let Some(n) = slots.iter().skip(1).find(|s| s[0] != 0 && s[0] != 0xE5 && s[11] & 0x18 == 0 && s[11] & 0x0F != 0x0F).map(|s| {
                let mut n = [0u8; 11];
                n.copy_from_slice(&s[..11]);
                n
            }) {
                if slots[0][11] == 0x08 {
                    slots[0][..11].copy_from_slice(&n);
                }
            }
        }
        // write the directory
        match first {
            None => {
                // FAT16 root: fixed region, already zeroed
                for (i, s) in slots.iter().enumerate() {
                    let blk = self.g.root_dir_start + (i / 16) as u32;
                    self.img.patch(blk, (i % 16) * 32, s);
                }
            }
            Some(c0) => {
                let per = 16 * self.g.spc as usize;
                let mut need = ((slots.len() + 1 + per - 1) / per) as u32; // +1: room for the end marker
                if let Some(k) = self.spec.full_dirs {
                    need = (((slots.len() + k as usize + per - 1) / per).max(1)) as u32; // (slots were padded to whole clusters above)
                }
                if self.spec.full_dirs.is_none() && self.rng.chance(1, 8) {
                    need += 1; // an extra, empty cluster
                }
                if self.spec.full_dirs.is_none() && self.rng.chance(1, 8) && slots.len() % per != 0 {
                    // directory exactly full: no end marker
                    while slots.len() % per != 0 {
                        let mut d = entry_raw(&make_name("PAD", "X"), 0x20, 0, 0, fat32, FORMAT_TIME);
                        d[0] = 0xE5;
                        slots.push(d);
                    }
                    need = (slots.len() / per) as u32;
                }
                let mut ch = vec![c0];
                if need > 1 {
                    let more = self.al.chain(&mut self.rng, need - 1, self.spec.fragment);
                    if let Some(&m) = more.first() {
                        self.al.fat[c0 as usize] = m;
                    }
                    ch.extend(more);
                }
                let mut bytes = vec![0u8; ch.len() * self.g.cluster_bytes() as usize];
                for (i, s) in slots.iter().enumerate() {
                    if (i + 1) * 32 <= bytes.len() {
                        bytes[i * 32..i * 32 + 32].copy_from_slice(s);
                    }
                }
                for (i, &c) in ch.iter().enumerate() {
                    for s in 0..self.g.spc as usize {
                        let off = i * self.g.cluster_bytes() as usize + s * 512;
                        let mut b: Blk = [0u8; 512];
                        b.copy_from_slice(&bytes[off..off + 512]);
                        self.img.set(self.g.cluster_block(c) + s as u32, &b);
                    }
                }
            }
        }
        let my_cluster_for_children = if is_root { 0 } else { first.unwrap() };
        for (p, c) in children {
            self.build_dir(&p, Some(c), my_cluster_for_children, depth + 1, false);
        }
    }
}

/// Format one volume into `img` according to `v`. Returns geometry and what was put in.
pub fn format_volume(img: &mut Image, v: &VolSpec) -> VolOut {
    let fat_size = v.fat_size();
    let rds = v.root_dir_sectors();
    let total = v.total_blocks();
    let first_fat = v.lba + v.reserved as u32;
    let root_dir_start = first_fat + v.num_fats as u32 * fat_size;
    let first_data = root_dir_start + rds;
    let g = Geom {
        part_lba: v.lba,
        part_blocks: total,
        fat32: v.fat32,
        spc: v.spc as u32,
        reserved: v.reserved as u32,
        num_fats: v.num_fats as u32,
        fat_size,
        root_entries: if v.fat32 { 0 } else { v.root_entries as u32 },
        root_dir_sectors: rds,
        total,
        first_fat,
        root_dir_start,
        first_data,
        clusters: v.clusters,
        root_cluster: if v.fat32 { v.root_cluster.max(2) } else { 0 },
        fsinfo: if v.fat32 { v.lba + v.fsinfo_sector as u32 } else { 0 },
        backup_boot: if v.fat32 { v.backup_boot as u32 } else { 0 },
    };
    // --- boot sector
    let mut b: Blk = [0u8; 512];
    b[0] = 0xEB;
    b[1] = 0x58;
    b[2] = 0x90;
    b[3..11].copy_from_slice(b"SIMMKFS ");
    b[11..13].copy_from_slice(&512u16.to_le_bytes());
    b[13] = v.spc;
    b[14..16].copy_from_slice(&v.reserved.to_le_bytes());
    b[16] = v.num_fats;
    b[17..19].copy_from_slice(&(g.root_entries as u16).to_le_bytes());
    let tot16 = v.use_tot16 && total < 0x10000 && !v.fat32;
    if tot16 {
        b[19..21].copy_from_slice(&(total as u16).to_le_bytes());
    } else {
        b[32..36].copy_from_slice(&total.to_le_bytes());
    }
    b[21] = 0xF8;
    b[24..26].copy_from_slice(&63u16.to_le_bytes());
    b[26..28].copy_from_slice(&255u16.to_le_bytes());
    b[28..32].copy_from_slice(&v.lba.to_le_bytes());
    let label: &[u8; 11] = if v.label { b"SIMLABEL   " } else { b"           " };
    if v.fat32 {
        b[36..40].copy_from_slice(&fat_size.to_le_bytes());
        b[40..42].copy_from_slice(&v.ext_flags.to_le_bytes());
        b[44..48].copy_from_slice(&g.root_cluster.to_le_bytes());
        b[48..50].copy_from_slice(&v.fsinfo_sector.to_le_bytes());
        b[50..52].copy_from_slice(&v.backup_boot.to_le_bytes());
        b[64] = 0x80;
        b[66] = 0x29;
        b[67..71].copy_from_slice(&0x1234_5678u32.to_le_bytes());
        b[71..82].copy_from_slice(label);
        b[82..90].copy_from_slice(b"FAT32   ");
    } else {
        b[22..24].copy_from_slice(&(fat_size as u16).to_le_bytes());
        b[36] = 0x80;
        b[38] = 0x29;
        b[39..43].copy_from_slice(&0x1234_5678u32.to_le_bytes());
        b[43..54].copy_from_slice(label);
        b[54..62].copy_from_slice(b"FAT16   ");
    }
    b[510] = 0x55;
    b[511] = 0xAA;
    img.set(v.lba, &b);
    // other reserved sectors: recognisable filler (must never be written by the library)
    for r in 1..v.reserved as u32 {
        let mut f: Blk = [0u8; 512];
        for (i, x) in f.iter_mut().enumerate() {
            *x = (0xC0 ^ (r as u8) ^ (i as u8)) | 0x80;
        }
        img.set(v.lba + r, &f);
    }
    if v.fat32 && v.backup_boot != 0 && (v.backup_boot as u32) < v.reserved as u32 {
        img.set(v.lba + v.backup_boot as u32, &b);
    }
    // zero FATs and FAT16 root
    let z: Blk = [0u8; 512];
    for i in 0..(v.num_fats as u32 * fat_size + rds) {
        img.set(first_fat + i, &z);
    }
    // tail blocks after the last cluster: recognisable, must never be written
    for i in 0..v.tail as u32 {
        let mut f: Blk = [0x7Eu8; 512];
        f[0] = i as u8;
        img.set(g.end_block() + i, &f);
    }
    // --- allocation
    let n = v.clusters + 2;
    let cursor0 = if v.tree.alloc_top && n > 64 { n - 3 - (crate::rng::fnv(&v.tree.seed.to_le_bytes()) % 12) as u32 } else { 2 };
    let mut al = Alloc { fat: vec![0u32; n as usize], fat32: v.fat32, n, cursor: cursor0, eoc_seed: if v.tree.eoc_variants { Some(v.tree.seed) } else { None } };
    al.fat[0] = if v.fat32 { 0x0FFF_FFF8 } else { 0xFFF8 };
    al.fat[1] = al.eoc();
    let mut rng = Rng::new(v.tree.seed);
    // bad clusters first so nothing gets allocated on them
    for _ in 0..v.tree.bad {
        let c = rng.range(2, n as u64 - 1) as u32;
        if al.is_free(c) && !(v.fat32 && c == g.root_cluster) {
            al.fat[c as usize] = al.bad();
        }
    }
    if v.fat32 {
        let rc = g.root_cluster;
        al.fat[rc as usize] = al.eoc_at(rc);
        for s in 0..v.spc as u32 {
            img.set(g.cluster_block(rc) + s, &z);
        }
    }
    let spec = v.tree.clone();
    let mut bld = Builder { img, g: g.clone(), al, rng, spec: &spec, manifest: Vec::new(), counter: 0, dirs_left: spec.dirs as u32, files_left: spec.files as u32 };
    if v.fat32 {
        // FAT32 root is a normal chain starting at root_cluster
        let rc = g.root_cluster;
        bld.build_dir("", Some(rc), 0, 0, true);
    } else {
        bld.build_dir("", None, 0, 0, true);
    }
    // --- ballast
    if let Some(want_free) = spec.free {
        let mut keep: Vec<u32> = Vec::new();
        let al = &mut bld.al;
        let rng = &mut bld.rng;
        if spec.free_last && want_free > 0 && al.is_free(n - 1) {
            keep.push(n - 1);
        }
        let lo = if spec.free_high && v.fat32 && n > 0x10000 + 64 { 0x10000 } else { 2 };
        // a contiguous run crossing a FAT-sector boundary, then scattered ones
        let per = if v.fat32 { 128 } else { 256 };
        let mut tries = 0;
        if want_free as usize > keep.len() + 1 {
            let boundary = ((rng.range(lo as u64, n as u64 - 1) as u32) / per).max(if lo > 2 { lo / per + 1 } else { 1 }) * per;
            let run = ((want_free as usize - keep.len()) / 2).max(1) as u32;
            let start = boundary.saturating_sub(run / 2).max(lo);
            for c in start..(start + run).min(n) {
                if al.is_free(c) && !keep.contains(&c) && keep.len() < want_free as usize {
                    keep.push(c);
                }
            }
        }
        while keep.len() < want_free as usize && tries < 100_000 {
            tries += 1;
            let c = rng.range(lo as u64, n as u64 - 1) as u32;
            if al.is_free(c) && !keep.contains(&c) {
                keep.push(c);
            }
        }
        let mut is_keep = vec![false; n as usize];
        for &c in &keep {
            is_keep[c as usize] = true;
        }
        // a few ballast files in /BALLAST (so that chains exist), the bulk as bad marks
        let to_fill: Vec<u32> = (2..n).filter(|&c| al.is_free(c) && !is_keep[c as usize]).collect();
        let bad = al.bad();
        let eoc = al.eoc();
        let n_files = to_fill.len().min(3);
        let per_file = if n_files > 0 { (to_fill.len() / 4 / n_files.max(1)).clamp(1, 40) } else { 0 };
        let mut idx = 0;
        let mut ballast_files: Vec<(Vec<u32>, u32)> = Vec::new();
        // a directory needs a cluster too
        let mut dir_cluster = None;
        if n_files > 0 && to_fill.len() > 1 + n_files * per_file {
            dir_cluster = Some(to_fill[0]);
            al.fat[to_fill[0] as usize] = eoc;
            idx = 1;
            for _ in 0..n_files {
                let ch: Vec<u32> = to_fill[idx..idx + per_file].to_vec();
                idx += per_file;
                for w in 0..ch.len() {
                    al.fat[ch[w] as usize] = if w + 1 < ch.len() { ch[w + 1] } else { eoc };
                }
                let cb = g.cluster_bytes();
                let size = ch.len() as u32 * cb - rng.range(0, cb as u64 - 1) as u32;
                ballast_files.push((ch, size));
            }
        }
        for &c in &to_fill[idx..] {
            al.fat[c as usize] = bad;
        }
        if let Some(dc) = dir_cluster {
            // write the BALLAST directory and hook it into the root if the root has a free slot
            let fat32 = v.fat32;
            let mut slots = vec![entry_raw(b".          ", 0x10, dc, 0, fat32, FORMAT_TIME), entry_raw(b"..         ", 0x10, 0, 0, fat32, FORMAT_TIME)];
            for (i, (ch, size)) in ballast_files.iter().enumerate() {
                let nm = make_name(&format!("BAL{}", i), "LST");
                slots.push(entry_raw(&nm, 0x20, ch[0], *size, fat32, FORMAT_TIME));
            }
            let mut bytes = vec![0u8; g.cluster_bytes() as usize];
            let mut fits = true;
            for (i, s) in slots.iter().enumerate() {
                if (i + 1) * 32 <= bytes.len() {
                    bytes[i * 32..i * 32 + 32].copy_from_slice(s);
                } else {
                    fits = false;
                }
            }
            let _ = fits;
            for s in 0..g.spc as usize {
                let mut blk: Blk = [0u8; 512];
                blk.copy_from_slice(&bytes[s * 512..s * 512 + 512]);
                bld.img.set(g.cluster_block(dc) + s as u32, &blk);
            }
            // find a free slot in the root
            let fv = FatViewTmp { raw: &bld.al.fat, fat32 };
            let hooked = hook_into_root(bld.img, &g, &fv, &entry_raw(&make_name("BALLAST", ""), 0x10, dc, 0, fat32, FORMAT_TIME));
            if hooked {
                bld.manifest.push(ManifestEntry { path: "/BALLAST".into(), is_dir: true, size: 0, hash: 0, attr: 0x10 });
                for (i, (_, size)) in ballast_files.iter().enumerate() {
                    bld.manifest.push(ManifestEntry { path: format!("/BALLAST/BAL{}.LST", i), is_dir: false, size: *size, hash: 0, attr: 0x20 });
                }
            } else {
                // could not hook: turn the whole ballast into bad marks instead (no lost clusters)
                let al = &mut bld.al;
                al.fat[dc as usize] = bad;
                for (ch, _) in &ballast_files {
                    for &c in ch {
                        al.fat[c as usize] = bad;
                    }
                }
            }
        }
    }
    let free_now = bld.al.free_count();
    // --- write FATs
    let mut fat = bld.al.fat.clone();
    if v.fat32 && spec.high_nibble {
        let mut r = Rng::new(spec.seed ^ 0x9999);
        for _ in 0..32 {
            let c = r.range(2, n as u64 - 1) as usize;
            fat[c] |= (r.range(1, 15) as u32) << 28;
        }
    }
    for copy in 0..v.num_fats as u32 {
        let eb = if v.fat32 { 4 } else { 2 };
        let per = 512 / eb;
        let nblk = (n as usize + per - 1) / per;
        for bi in 0..nblk {
            let mut blk: Blk = [0u8; 512];
            for i in 0..per {
                let c = bi * per + i;
                if c >= n as usize {
                    break;
                }
                if v.fat32 {
                    blk[i * 4..i * 4 + 4].copy_from_slice(&fat[c].to_le_bytes());
                } else {
                    blk[i * 2..i * 2 + 2].copy_from_slice(&(fat[c] as u16).to_le_bytes());
                }
            }
            bld.img.set(first_fat + copy * fat_size + bi as u32, &blk);
        }
    }
    // --- FSInfo
    if v.fat32 {
        let mut f: Blk = [0u8; 512];
        f[0..4].copy_from_slice(&0x4161_5252u32.to_le_bytes());
        f[484..488].copy_from_slice(&0x6141_7272u32.to_le_bytes());
        f[508..512].copy_from_slice(&0xAA55_0000u32.to_le_bytes());
        // filler in the reserved areas so that stray writes are visible
        for x in f[4..484].iter_mut() {
            *x = 0x11;
        }
        let first_free = bld.al.next_free_from(2).unwrap_or(0xFFFF_FFFF);
        let used_cluster = g.root_cluster;
        let (count, hint) = match v.fsinfo {
            FsInfoKind::Correct => (free_now, first_free),
            FsInfoKind::Unknown => (0xFFFF_FFFF, 0xFFFF_FFFF),
            FsInfoKind::StaleLow(d) => (free_now.saturating_sub(d), first_free),
            FsInfoKind::Zero => (0, first_free),
            FsInfoKind::StaleHigh(d) => (free_now + d, first_free),
            FsInfoKind::HintOut => (free_now, n + 1000),
            FsInfoKind::HintUsed => (free_now, used_cluster),
            FsInfoKind::HintLast => (free_now, n - 1),
            FsInfoKind::CountNearMax(k) => (0xFFFF_FFFE - k as u32, first_free),
            FsInfoKind::ZeroUnknownHint(k) => (0, [0xFFFF_FFFFu32, 0, 1][(k % 3) as usize]),
            FsInfoKind::HintAfterLastFree | FsInfoKind::ZeroHintAfterLastFree => {
                let last_free = (2..n).rev().find(|&c| bld.al.is_free(c));
                (if v.fsinfo == FsInfoKind::ZeroHintAfterLastFree { 0 } else { free_now }, last_free.map_or(used_cluster, |c| (c + 1).min(n - 1)))
            }
        };
        f[488..492].copy_from_slice(&count.to_le_bytes());
        f[492..496].copy_from_slice(&hint.to_le_bytes());
        bld.img.set(g.fsinfo, &f);
    }
    VolOut { geom: g, manifest: bld.manifest, free_at_format: free_now }
}

struct FatViewTmp<'a> {
    raw: &'a [u32],
    fat32: bool,
}

fn hook_into_root(img: &mut Image, g: &Geom, fv: &FatViewTmp, entry: &[u8; 32]) -> bool {
    // locate root blocks
    let mut blocks: Vec<u32> = Vec::new();
    if g.fat32 {
        let mut c = g.root_cluster;
        let mut guard = 0;
        loop {
            for s in 0..g.spc {
                blocks.push(g.cluster_block(c) + s);
            }
            let nx = fv.raw[c as usize] & 0x0FFF_FFFF;
            guard += 1;
            if nx < 2 || nx >= 0x0FFF_FFF7 || guard > 64 {
                break;
            }
            c = nx;
        }
        let _ = fv.fat32;
    } else {
        for i in 0..g.root_dir_sectors {
            blocks.push(g.root_dir_start + i);
        }
    }
    let mut left = if g.fat32 { u32::MAX } else { g.root_dir_sectors * 16 };
    for blk in blocks {
        let b = img.get(blk);
        for s in 0..16usize {
            if left == 0 {
                return false;
            }
            left -= 1;
            if b[s * 32] == 0 {
                // keep the end marker valid: the following slot (if in this block) is already zero
                img.patch(blk, s * 32, entry);
                return true;
            }
        }
    }
    false
}

/// Build a whole device: MBR + volumes. Returns image and per-volume outputs.
pub fn build_device(d: &DevSpec) -> (Image, Vec<VolOut>) {
    let mut end = 1u32;
    for v in &d.vols {
        end = end.max(v.lba + v.total_blocks());
    }
    let foreign_start = end;
    if d.foreign_slot.is_some() {
        end += 64;
    }
    let total = end + d.extra_blocks;
    let mut img = Image::new(total, d.stale_fill);
    let mut mbr: Blk = [0u8; 512];
    for (i, x) in mbr[..446].iter_mut().enumerate() {
        *x = (i as u8) ^ 0x3C;
    }
    mbr[510] = 0x55;
    mbr[511] = 0xAA;
    let mut outs = Vec::new();
    for v in &d.vols {
        let o = 446 + 16 * v.slot as usize;
        mbr[o] = if v.slot == 0 { 0x80 } else { 0x00 };
        mbr[o + 1..o + 4].copy_from_slice(&[0xFE, 0xFF, 0xFF]);
        mbr[o + 4] = v.ptype;
        mbr[o + 5..o + 8].copy_from_slice(&[0xFE, 0xFF, 0xFF]);
        mbr[o + 8..o + 12].copy_from_slice(&v.lba.to_le_bytes());
        let stated = if v.mbr_short { (v.total_blocks() / 3).max(1) } else { v.total_blocks() };
        mbr[o + 12..o + 16].copy_from_slice(&stated.to_le_bytes());
    }
    if let Some(s) = d.foreign_slot {
        if !d.vols.iter().any(|v| v.slot == s) {
            let o = 446 + 16 * s as usize;
            mbr[o + 4] = 0x83;
            mbr[o + 8..o + 12].copy_from_slice(&foreign_start.to_le_bytes());
            mbr[o + 12..o + 16].copy_from_slice(&64u32.to_le_bytes());
            for i in 0..64 {
                let f: Blk = [0xEE; 512];
                img.set(foreign_start + i, &f);
            }
        }
    }
    img.set(0, &mbr);
    for v in &d.vols {
        outs.push(format_volume(&mut img, v));
    }
    (img, outs)
}

/// Draw a device specification. `bias` selects what the calling property wants to stress.
#[derive(Clone, Copy, Debug, PartialEq, Eq)]
pub enum Bias {
    General,
    /// few free clusters, exact-full / slack last FAT sector
    Space,
    /// FAT32 with FSInfo variants
    Info,
    /// all geometry combinations, boundaries
    Geometry,
    /// cheap and small (crash / fault enumeration)
    Small,
}

pub fn gen_volspec(rng: &mut Rng, bias: Bias, lba: u32, slot: u8) -> VolSpec {
    let fat32 = match bias {
        Bias::Info => rng.chance(4, 5),
        Bias::Small => rng.chance(1, 8),
        Bias::Geometry => rng.chance(1, 2),
        _ => rng.chance(1, 4),
    };
    let spc: u8 = match bias {
        Bias::Geometry => 1 << rng.below(8),
        Bias::Small => *rng.pick(&[1u8, 1, 1, 2, 4]),
        _ => *rng.pick(&[1u8, 1, 1, 1, 2, 2, 4, 8, 16, 64, 128]),
    };
    let clusters: u32 = if fat32 {
        match rng.below(8) {
            0 => 65525,
            1 => 65526,
            2 => 65534,           // (n+2) % 128 == 0: last FAT sector exactly full
            3 => 65535,
            4 => 65662,           // exactly full again
            5 => rng.range(65525, 66000) as u32,
            6 => rng.range(65600, 70000) as u32,
            _ => rng.range(65536 + 200, 72000) as u32,
        }
    } else {
        match rng.below(10) {
            0 => 4085,
            1 => 4086,
            2 => 4094,            // (n+2) % 256 == 0
            3 => 4350,            // exactly full
            4 => 65524,
            5 => rng.range(4085, 4400) as u32,
            6 => rng.range(4085, 4400) as u32,
            7 => 4095,
            8 => rng.range(4400, 9000) as u32,
            _ => rng.range(4085, 4200) as u32,
        }
    };
    let clusters = if bias == Bias::Small && !fat32 { clusters.min(4400) } else { clusters };
    let reserved: u16 = if fat32 { *rng.pick(&[32u16, 32, 9, 16, 64]) } else { *rng.pick(&[1u16, 1, 1, 2, 8]) };
    let fsinfo_sector: u16 = if fat32 { *rng.pick(&[1u16, 1, 1, 2, 7]) } else { 0 };
    let backup_boot: u16 = if fat32 { if fsinfo_sector == 7 { 6 } else { *rng.pick(&[6u16, 6, 0, 8]) } } else { 0 };
    let backup_boot = if backup_boot == fsinfo_sector { 0 } else { backup_boot };
    // three and four FAT copies are legal ("any value >= 1"); only the mount engine (read-only) uses them, the
    // histories stay with 1 and 2 as the write-side properties are stated for those
    let num_fats = if bias == Bias::Geometry && rng.chance(1, 8) { *rng.pick(&[3u8, 4]) } else if rng.chance(3, 4) { 2 } else { 1 };
    let root_entries: u16 = if fat32 { 0 } else { *rng.pick(&[512u16, 512, 16, 32, 64, 128, 240, 256, 40, 100, 500, 511]) };
    let free = match bias {
        Bias::Space => Some(match rng.below(8) {
            0 => 0,
            1 => 1,
            2 => 2,
            3 => 3,
            _ => rng.range(4, 64) as u32,
        }),
        Bias::Small => {
            if rng.chance(1, 4) {
                Some(rng.range(0, 12) as u32)
            } else {
                None
            }
        }
        _ => {
            if rng.chance(1, 4) {
                Some(rng.range(0, 40) as u32)
            } else {
                None
            }
        }
    };
    let fsinfo = if !fat32 {
        FsInfoKind::Correct
    } else {
        match (bias, rng.below(10)) {
            (Bias::Info, 0) => FsInfoKind::Unknown,
            (Bias::Info, 1) => FsInfoKind::StaleLow(rng.range(1, 5) as u32),
            (Bias::Info, 2) => FsInfoKind::Zero,
            (Bias::Info, 3) => FsInfoKind::StaleHigh(rng.range(1, 100) as u32),
            (Bias::Info, 4) => FsInfoKind::HintOut,
            (Bias::Info, 5) => FsInfoKind::HintUsed,
            (Bias::Info, 6) => FsInfoKind::HintLast,
            (Bias::Info, 7) | (Bias::Space, 7) => {
                match rng.below(3) {
                    0 => FsInfoKind::HintAfterLastFree,
                    1 => FsInfoKind::CountNearMax(rng.below(4) as u8),
                    _ => FsInfoKind::ZeroUnknownHint(rng.below(3) as u8),
                }
            }
            (_, 9) => FsInfoKind::Unknown,
            (_, 8) => FsInfoKind::HintUsed,
            _ => FsInfoKind::Correct,
        }
    };
    // a hint right behind the highest free cluster only matters when little is free
    let free = if fsinfo == FsInfoKind::HintAfterLastFree { Some(*rng.pick(&[1u32, 1, 2, 3, 8])) } else { free };
    let max_cluster_id = clusters + 1;
    let root_cluster = if fat32 {
        match rng.below(4) {
            0 => rng.range(2, max_cluster_id as u64) as u32,
            1 => 3,
            _ => 2,
        }
    } else {
        0
    };
    let mut v = VolSpec {
        slot,
        ptype: if fat32 { *rng.pick(&[0x0Bu8, 0x0C, 0x0C]) } else { *rng.pick(&[0x06u8, 0x0E, 0x04, 0x06]) },
        lba,
        fat32,
        spc,
        reserved,
        num_fats,
        root_entries,
        clusters,
        fat_extra: if rng.chance(1, 4) { rng.range(1, 3) as u16 } else { 0 },
        tail: if spc > 1 && rng.chance(1, 2) { rng.range(1, spc as u64 - 1) as u8 } else { 0 },
        use_tot16: rng.chance(1, 2),
        root_cluster,
        fsinfo_sector,
        backup_boot,
        fsinfo,
        label: rng.chance(1, 2),
        ext_flags: if fat32 && rng.chance(1, 6) { *rng.pick(&[0x0080u16, 0x0081, 0x0001, 0x000F]) } else { 0 },
        mbr_short: rng.chance(1, 8),
        tree: TreeSpec {
            seed: rng.next_u64(),
            dirs: rng.range(0, 6) as u8,
            files: rng.range(0, 10) as u8,
            depth: rng.range(0, 3) as u8,
            max_clusters: *rng.pick(&[1u8, 2, 3, 5, 9]),
            lfn: rng.chance(1, 2),
            deleted: rng.chance(1, 2),
            vol_label: rng.chance(1, 3),
            fragment: rng.chance(1, 2),
            free,
            free_high: rng.chance(1, 2),
            free_last: rng.chance(1, 2),
            bad: if rng.chance(1, 3) { rng.range(1, 5) as u8 } else { 0 },
            high_nibble: fat32 && rng.chance(1, 3),
            latin1: rng.chance(1, 4),
            big_dirs: rng.chance(1, 3),
            full_dirs: if spc <= 8 && rng.chance(1, if matches!(bias, Bias::Space | Bias::Small) { 3 } else { 6 }) { Some(rng.below(3) as u8) } else { None },
            dir_attrs: rng.chance(1, 3),
            alloc_top: rng.chance(1, 4),
            ea_handles: !fat32 && rng.chance(1, 4),
            eoc_variants: rng.chance(1, 3),
            overalloc: rng.chance(1, 4),
            // (not generated: by C06 a name resolves to whatever entry the listing shows first, the label included, so a
            // file behind a label of the same name is unreachable by design; see DESIGN 16)
            label_twin: false,
        },
    };
    // variations added later are derived from the tree seed, not drawn: the stream above stays what it was
    let mut r2 = Rng::new(v.tree.seed ^ 0x7661_7269_6174_696f);
    let (a, b, c) = (r2.below(16), r2.below(2), r2.below(24));
    let mut r2b = Rng::new(v.tree.seed ^ 0x736d_616c_6c68_696e);
    if v.fat32 && a == 0 {
        // a long reserved area with the information sector beyond block 255 (the field is 16 bits wide)
        v.reserved = 258 + r2.below(300) as u16;
        v.fsinfo_sector = 256 + r2.below(v.reserved as u64 - 256) as u16;
        v.backup_boot = 6;
    }
    if v.fsinfo == FsInfoKind::HintAfterLastFree && b == 0 {
        v.fsinfo = FsInfoKind::ZeroHintAfterLastFree;
    }
    if v.fat32 && bias == Bias::Small && r2b.below(6) == 0 {
        // the power-cut and device-error engines (small volumes) otherwise never see a hint that sends the first
        // allocation of a session round the volume
        v.fsinfo = if r2b.chance(1, 2) { FsInfoKind::HintAfterLastFree } else { FsInfoKind::ZeroHintAfterLastFree };
        v.tree.free = Some(*r2b.pick(&[1u32, 1, 2, 3, 8]));
    }
    if !v.fat32 && c == 0 {
        // the largest root directories: 2048 entries and more (entry count times 32 no longer fits 16 bits)
        v.root_entries = *r2.pick(&[2048u16, 2048, 2049, 4096, 2064]);
    }
    v
}

pub fn gen_devspec(rng: &mut Rng, bias: Bias, max_vols: usize) -> DevSpec {
    let nv = if max_vols <= 1 {
        1
    } else {
        match rng.below(6) {
            0 | 1 => 2.min(max_vols),
            2 => 3.min(max_vols),
            _ => 1,
        }
    };
    let mut slots: Vec<u8> = vec![0, 1, 2, 3];
    // shuffle slots sometimes so that volume 0 is not always in slot 0
    if rng.chance(1, 3) {
        for i in (1..4).rev() {
            let j = rng.usize_below(i + 1);
            slots.swap(i, j);
        }
    }
    let mut vols = Vec::new();
    let mut lba = *rng.pick(&[1u32, 63, 2048, 1, 8]) + if rng.chance(1, 5) { rng.range(0, 5000) as u32 } else { 0 };
    for i in 0..nv {
        let b = if i == 0 { bias } else if bias == Bias::Small { Bias::Small } else { Bias::General };
        let mut v = gen_volspec(rng, b, lba, slots[i]);
        if i > 0 && bias != Bias::Geometry {
            // keep secondary volumes cheap
            if v.fat32 && rng.chance(2, 3) {
                v = gen_volspec(rng, Bias::Small, lba, slots[i]);
            }
        }
        lba = v.lba + v.total_blocks() + *rng.pick(&[0u32, 0, 1, 17, 100]);
        vols.push(v);
    }
    let mut foreign = if rng.chance(1, 3) { slots.get(nv).copied() } else { None };
    let mut extra_blocks = *rng.pick(&[0u32, 0, 5, 100]);
    // sometimes the whole layout sits at the top of the 32-bit block range (last block 0xFFFF_FFFE or a little
    // below) or straddles 2^31: block arithmetic must not wrap or go through signed values
    if rng.chance(1, 10) {
        let end = vols.iter().map(|v: &VolSpec| v.lba + v.total_blocks()).max().unwrap_or(1);
        let first = vols.iter().map(|v| v.lba).min().unwrap_or(1);
        let top = match rng.below(4) {
            0 => u32::MAX,
            1 => u32::MAX - rng.range(1, 3000) as u32,
            2 => 0x8000_0000 + (end - first) / 2,
            _ => 0x8000_0000 + rng.range(0, 0x7000_0000) as u32,
        };
        let delta = top - end;
        for v in vols.iter_mut() {
            v.lba += delta;
        }
        foreign = None;
        extra_blocks = extra_blocks.min(u32::MAX - top);
    }
    DevSpec { vols, stale_fill: rng.chance(3, 4), extra_blocks, foreign_slot: foreign }
}
