//! Reference 8.3 name parser used by the model to classify names passed to the API
//! (valid / invalid, and the 11 on-disk bytes of a valid one). Written from the FAT
//! specification and the documented behaviour (ISO-8859-1, ASCII upper-casing).

pub fn sfn_parse(name: &str) -> Result<[u8; 11], ()> {
    if name == ".." {
        return Ok(*b"..         ");
    }
    if name.is_empty() || name == "." {
        return Ok(*b".          ");
    }
    let mut out = [b' '; 11];
    let mut base = 0usize;
    let mut ext = 0usize;
    let mut seen_dot = false;
    for ch in name.chars() {
        let c = ch as u32;
        if c > 0xFF {
            return Err(());
        }
        let b = c as u8;
        match b {
            0x00..=0x1F | b'"' | b'*' | b'+' | b',' | b'/' | b':' | b';' | b'<' | b'=' | b'>' | b'?' | b'[' | b'\\' | b']' | b' ' | b'|' => return Err(()),
            b'.' => {
                if seen_dot || base == 0 {
                    return Err(());
                }
                seen_dot = true;
            }
            _ => {
                let u = if b.is_ascii_lowercase() { b.to_ascii_uppercase() } else { b };
                if seen_dot {
                    if ext >= 3 {
                        return Err(());
                    }
                    out[8 + ext] = u;
                    ext += 1;
                } else {
                    if base >= 8 {
                        return Err(());
                    }
                    out[base] = u;
                    base += 1;
                }
            }
        }
    }
    if base == 0 {
        return Err(());
    }
    Ok(out)
}

/// Render 11 on-disk bytes as a string the API accepts (None if that is impossible,
/// e.g. lower-case ASCII or forbidden characters stored on disk).
pub fn sfn_to_string(n: &[u8; 11]) -> Option<String> {
    if n == b".          " {
        return Some(".".into());
    }
    if n == b"..         " {
        return Some("..".into());
    }
    let mut s = String::new();
    let base_len = n[..8].iter().rposition(|&b| b != b' ').map_or(0, |p| p + 1);
    let ext_len = n[8..].iter().rposition(|&b| b != b' ').map_or(0, |p| p + 1);
    for &b in &n[..base_len] {
        s.push(b as char);
    }
    if ext_len > 0 {
        s.push('.');
        for &b in &n[8..8 + ext_len] {
            s.push(b as char);
        }
    }
    match sfn_parse(&s) {
        Ok(p) if &p == n => Some(s),
        _ => None,
    }
}

pub const INVALID_NAMES: &[&str] = &["TOOLONGNAME.TXT", "A.TOOL", "A B", "A*B", ".HIDDEN", "X/Y", "\u{100}", "A\u{7}", "Q?", "A.B.C", "NINECHARS", "A:B"];
