//! Mount engine (C15): valid layouts from the independent formatter must be located exactly;
//! corrupted partition tables / boot sectors / FSInfo sectors must give Ok or Err, never a panic.

use crate::batch::CaseOutcome;
use crate::check::lib_tree_compare;
use crate::clock::SimClock;
use crate::disk::{Blk, RoDisk};
use crate::fatspec::{self, FatView, FsckOpts, Geom};
use crate::fs::{err_name, make_fs};
use crate::mkfs::{build_device, gen_devspec, gen_volspec, Bias, DevSpec};
use crate::rng::Rng;
use crate::world::{Probes, Violation};
use serde::{Deserialize, Serialize};

#[derive(Serialize, Deserialize, Clone, Debug, PartialEq)]
pub struct Mutation {
    /// 0 = MBR, 1 = boot sector of the target volume, 2 = its FSInfo sector
    pub sector: u8,
    pub off: u16,
    pub bytes: Vec<u8>,
}

#[derive(Serialize, Deserialize, Clone, Debug, PartialEq)]
pub struct MountCase {
    pub dev: DevSpec,
    pub target: usize,
    pub muts: Vec<Mutation>,
    /// Some(seed): replace the sector (kind = seed % 3) by PRNG bytes, keeping signatures if bit 2 is set
    pub random_sector: Option<u64>,
    /// expect the library to refuse (FAT12-sized volume)
    pub expect_reject: bool,
    /// Some(L): the partition entry says the volume starts at block L (near 2^32) and the device really serves the
    /// volume's boot sector there
    #[serde(default)]
    pub relocate_to: Option<u32>,
}

const BOOT_FIELDS: &[(u16, u8)] = &[(11, 2), (13, 1), (14, 2), (16, 1), (17, 2), (19, 2), (21, 1), (22, 2), (28, 4), (32, 4), (36, 4), (40, 2), (42, 2), (44, 4), (48, 2), (50, 2), (510, 2)];
const MBR_FIELDS_REL: &[(u16, u8)] = &[(0, 1), (4, 1), (8, 4), (12, 4)];
const INFO_FIELDS: &[(u16, u8)] = &[(0, 4), (484, 4), (488, 4), (492, 4), (508, 4)];

fn boundary_value(r: &mut Rng, len: u8) -> Vec<u8> {
    let max: u64 = if len >= 8 { u64::MAX } else { (1u64 << (8 * len as u32)) - 1 };
    let v = match r.below(9) {
        0 => 0,
        1 => 1,
        2 => max,
        3 => max - 1,
        4 => max / 2 + 1,
        5 => 2,
        6 => 0x80,
        7 => r.range(0, max),
        _ => 1u64 << r.below(8 * len as u64),
    };
    v.to_le_bytes()[..len as usize].to_vec()
}

pub fn gen_case(seed: u64) -> MountCase {
    let mut r = Rng::new(seed);
    let mut dev = gen_devspec(&mut r, Bias::Geometry, 3);
    // keep formatter work small: trees are not the point here, geometry is
    for v in dev.vols.iter_mut() {
        v.tree.free = None;
        v.tree.bad = v.tree.bad.min(2);
    }
    let target = r.usize_below(dev.vols.len());
    let mode = r.below(10);
    let mut muts = Vec::new();
    let mut random_sector = None;
    let mut expect_reject = false;
    let mut relocate_to = None;
    if r.chance(1, 12) {
        relocate_to = Some(*r.pick(&[0xFFFF_FFFFu32, 0xFFFF_FFFE, 0xFFFF_FFF0, 0xFFFF_FF00, 0xFFFF_FFFF - 31, 0xFFFF_FFFF - 32]));
    }
    match mode {
        0 | 1 | 2 => {} // valid as formatted
        3 => {
            // one below the FAT16 minimum: must be refused
            // (the volumes are re-packed below: bring a layout from the top of the block range down first)
            let low = dev.vols.iter().map(|v| v.lba).min().unwrap_or(1);
            if low >= 0x4000_0000 {
                for v in dev.vols.iter_mut() {
                    v.lba -= low - 1;
                }
            }
            let v = &mut dev.vols[target];
            let lba = v.lba;
            *v = gen_volspec(&mut r, Bias::Geometry, lba, v.slot);
            v.fat32 = false;
            v.ptype = 0x06;
            v.clusters = *r.pick(&[4084u32, 4084, 4000, 1]);
            v.root_entries = 512;
            v.reserved = 1;
            v.tree.files = 0;
            v.tree.dirs = 0;
            v.tree.free = None;
            v.tree.bad = 0;
            expect_reject = true;
            // re-pack the following volumes
            let mut next = dev.vols[target].lba + dev.vols[target].total_blocks() + 3;
            for i in target + 1..dev.vols.len() {
                dev.vols[i].lba = next;
                next += dev.vols[i].total_blocks() + 3;
            }
        }
        4 | 5 | 6 => {
            // field boundary values, one or two at a time
            for _ in 0..if r.chance(1, 2) { 1 } else { 2 } {
                let sector = r.below(3) as u8;
                let (off, len) = match sector {
                    0 => {
                        let (o, l) = *r.pick(MBR_FIELDS_REL);
                        (446 + 16 * dev.vols[target].slot as u16 + o, l)
                    }
                    1 => *r.pick(BOOT_FIELDS),
                    _ => *r.pick(INFO_FIELDS),
                };
                muts.push(Mutation { sector, off, bytes: boundary_value(&mut r, len) });
            }
        }
        7 | 8 => {
            // random bit flips
            for _ in 0..r.range(1, 64) {
                let sector = r.below(3) as u8;
                let off = if sector == 1 && r.chance(3, 4) { r.range(11, 90) as u16 } else { r.below(512) as u16 };
                muts.push(Mutation { sector, off, bytes: vec![1u8 << r.below(8)] });
            }
            // bit flips are XORs: marked by an empty-length convention (single byte, xor)
        }
        _ => {
            random_sector = Some(r.next_u64());
        }
    }
    MountCase { dev, target, muts, random_sector, expect_reject, relocate_to }
}

pub fn mount_eval(case: &MountCase, flips_are_xor: bool) -> CaseOutcome {
    let mut out = CaseOutcome::default();
    out.case = serde_json::to_value(case).unwrap();
    out.evaluations = 1;
    let mut probes = Probes::default();
    let mut viols: Vec<Violation> = Vec::new();
    let (mut img, outs) = build_device(&case.dev);
    let v = &case.dev.vols[case.target];
    let g0 = outs[case.target].geom.clone();
    let corrupted = !case.muts.is_empty() || case.random_sector.is_some() || case.relocate_to.is_some();
    let sector_block = |k: u8| -> u32 {
        match k {
            0 => 0,
            1 => v.lba,
            _ => {
                if v.fat32 {
                    v.lba + v.fsinfo_sector as u32
                } else {
                    v.lba
                }
            }
        }
    };
    for m in &case.muts {
        let blk = sector_block(m.sector);
        let mut b: Blk = img.get(blk);
        for (i, x) in m.bytes.iter().enumerate() {
            let o = m.off as usize + i;
            if o < 512 {
                if flips_are_xor && m.bytes.len() == 1 {
                    b[o] ^= *x;
                } else {
                    b[o] = *x;
                }
            }
        }
        img.set(blk, &b);
    }
    if let Some(s) = case.random_sector {
        let mut r = Rng::new(s);
        let blk = sector_block((s % 3) as u8);
        let mut b: Blk = [0u8; 512];
        r.fill(&mut b);
        if s & 4 != 0 {
            b[510] = 0x55;
            b[511] = 0xAA;
            if s % 3 == 2 {
                b[0..4].copy_from_slice(&0x4161_5252u32.to_le_bytes());
                b[484..488].copy_from_slice(&0x6141_7272u32.to_le_bytes());
                b[508..512].copy_from_slice(&0xAA55_0000u32.to_le_bytes());
            }
            if s % 3 == 0 {
                // keep a plausible partition entry for the target slot so that the boot sector gets parsed
                let o = 446 + 16 * v.slot as usize;
                b[o] = 0;
                b[o + 4] = v.ptype;
            }
            if s % 3 == 1 && s & 8 != 0 {
                // plausible bytes/sector so that parsing goes deeper
                b[11] = 0;
                b[12] = 2;
            }
        }
        img.set(blk, &b);
        probes.hit("random_sector");
    }
    if let Some(l) = case.relocate_to {
        // a huge (sparse) device whose last blocks hold this volume's boot sector and FSInfo sector
        img.num_blocks = u32::MAX;
        let boot = img.get(v.lba);
        img.set(l, &boot);
        if v.fat32 {
            if let Some(fi) = l.checked_add(v.fsinfo_sector as u32) {
                if fi < u32::MAX {
                    let info = img.get(v.lba + v.fsinfo_sector as u32);
                    img.set(fi, &info);
                }
            }
        }
        let o = 446 + 16 * v.slot as usize + 8;
        img.patch(0, o, &l.to_le_bytes());
        probes.hit("volume_relocated_to_the_end_of_the_32bit_block_range");
    }
    let clock = SimClock::new(0);
    let ro = RoDisk::new(&img);
    let slot = v.slot;
    let r = std::panic::catch_unwind(std::panic::AssertUnwindSafe(|| {
        let fs = make_fs((4, 4, 1), &ro, &clock, 3);
        let r = fs.open_volume(slot as usize, 0);
        match r {
            Ok(vh) => {
                // a successful mount must at least hand out the root directory
                let d = fs.open_root_dir(vh, 0);
                Ok(d.is_ok())
            }
            Err(e) => Err(err_name(&e)),
        }
    }));
    let mut h = 0xcbf29ce484222325u64;
    match &r {
        Err(_) => {
            let loc = crate::last_panic_location();
            viols.push(Violation { prop: "C15", oracle: "mount-panic".into(), disc: loc.clone(), detail: format!("open_volume panicked at {} ({})", loc, if corrupted { "corrupted sector" } else { "valid layout" }), op_idx: 0 });
        }
        Ok(Ok(_)) => {
            probes.hit(if corrupted { "corrupted_media_mounted" } else { "valid_media_mounted" });
            crate::rng::fnv_add(&mut h, b"ok");
        }
        Ok(Err(e)) => {
            probes.hit(if corrupted { "corrupted_media_rejected" } else { "valid_media_rejected" });
            crate::rng::fnv_add(&mut h, e.as_bytes());
        }
    }
    if !corrupted {
        if case.expect_reject {
            probes.hit("fat12_sized_volume");
            if let Ok(Ok(_)) = r {
                viols.push(Violation { prop: "C15", oracle: "fat12-volume-mounted".into(), disc: String::new(), detail: format!("{} clusters", v.clusters), op_idx: 0 });
            }
        } else {
            match r {
                Ok(Err(e)) => viols.push(Violation { prop: "C15", oracle: "valid-layout-rejected".into(), disc: e.to_string(), detail: format!("{:?}", v), op_idx: 0 }),
                Ok(Ok(_)) => {
                    // everything the formatter put there must be found where the specification puts it
                    match Geom::parse(&img, g0.part_lba, g0.part_blocks) {
                        Ok(g) => {
                            let fat = FatView::load(&img, &g, 0);
                            let tree = fatspec::walk(&img, &g, &fat, &FsckOpts::default());
                            for (o, d) in lib_tree_compare(&img, slot, &g, &tree, 0) {
                                viols.push(Violation { prop: "C15", oracle: format!("valid-layout/{}", o), disc: format!("{}:spc{}:fats{}", if g.fat32 { "fat32" } else { "fat16" }, g.spc, g.num_fats), detail: d, op_idx: 0 });
                            }
                            // and the reader must agree with what the formatter intended
                            for m in &outs[case.target].manifest {
                                if !m.is_dir {
                                    crate::rng::fnv_add(&mut h, &m.hash.to_le_bytes());
                                }
                            }
                            if tree.files.len() + tree.dirs.len() > 1 {
                                probes.hit("valid_tree_walked_through_library");
                            }
                            match g.clusters {
                                4085 => probes.hit("boundary_4085_clusters"),
                                65524 => probes.hit("boundary_65524_clusters_fat16"),
                                65525 => probes.hit("boundary_65525_clusters_fat32"),
                                _ => {}
                            }
                            if g.spc == 128 {
                                probes.hit("128_blocks_per_cluster");
                            }
                            if v.slot > 0 {
                                probes.hit("partition_slot_other_than_0");
                            }
                        }
                        Err(e) => viols.push(Violation { prop: "C15", oracle: "harness-reader-rejects-formatter".into(), disc: String::new(), detail: e, op_idx: 0 }),
                    }
                }
                Err(_) => {}
            }
        }
    }
    out.nontrivial = true;
    crate::rng::fnv_add(&mut h, &serde_json::to_vec(&case.muts).unwrap());
    crate::rng::fnv_add(&mut h, &[v.spc, v.num_fats, v.slot, v.fat32 as u8]);
    crate::rng::fnv_add(&mut h, &v.clusters.to_le_bytes());
    out.ev_hash = h;
    out.probes = probes;
    out.viols = viols;
    out.dev_calls = ro.reads.get();
    out.faults.insert("corrupted_boot_mbr_fsinfo_bytes".into(), corrupted as u64);
    out
}

pub fn mount_case(seed: u64) -> CaseOutcome {
    let c = gen_case(seed);
    let xor = c.muts.len() > 2 || c.muts.iter().all(|m| m.bytes.len() == 1 && m.bytes[0].count_ones() == 1 && c.muts.len() > 2);
    let mut o = mount_eval(&c, xor);
    // record how the mutation list is to be read, for replay
    if let serde_json::Value::Object(m) = &mut o.case {
        m.insert("flips_are_xor".into(), serde_json::Value::Bool(xor));
    }
    o
}

pub fn mount_replay(v: &serde_json::Value) -> Result<CaseOutcome, String> {
    let xor = v.get("flips_are_xor").and_then(|x| x.as_bool()).unwrap_or(false);
    let c: MountCase = serde_json::from_value(v.clone()).map_err(|e| e.to_string())?;
    let mut o = mount_eval(&c, xor);
    if let serde_json::Value::Object(m) = &mut o.case {
        m.insert("flips_are_xor".into(), serde_json::Value::Bool(xor));
    }
    Ok(o)
}

pub fn mount_minimise(v: &serde_json::Value, sig: &str) -> serde_json::Value {
    let xor = v.get("flips_are_xor").and_then(|x| x.as_bool()).unwrap_or(false);
    let mut best: MountCase = match serde_json::from_value(v.clone()) {
        Ok(c) => c,
        Err(_) => return v.clone(),
    };
    let test = |c: &MountCase| mount_eval(c, xor).viols.iter().any(|x| x.signature() == sig);
    let mut i = 0;
    while i < best.muts.len() {
        let mut c = best.clone();
        c.muts.remove(i);
        if test(&c) {
            best = c;
        } else {
            i += 1;
        }
    }
    // drop volumes after the target, simplify trees
    while best.dev.vols.len() > best.target + 1 {
        let mut c = best.clone();
        c.dev.vols.pop();
        if test(&c) {
            best = c;
        } else {
            break;
        }
    }
    let mut c = best.clone();
    for v in c.dev.vols.iter_mut() {
        v.tree.files = 0;
        v.tree.dirs = 0;
        v.tree.lfn = false;
    }
    if test(&c) {
        best = c;
    }
    let mut o = serde_json::to_value(&best).unwrap();
    if let serde_json::Value::Object(m) = &mut o {
        m.insert("flips_are_xor".into(), serde_json::Value::Bool(xor));
    }
    o
}
