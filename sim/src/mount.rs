//! Mount engine (C15): valid layouts from the independent formatter must be located exactly;
//! corrupted partition tables / boot sectors / FSInfo sectors must give Ok or Err, never a panic.

use crate::batch::CaseOutcome;
use crate::check::lib_tree_compare_ex;
use crate::clock::SimClock;
use crate::disk::{Blk, RoDisk};
use crate::fatspec::{self, FatView, FsckOpts, Geom};
use crate::fs::{err_name, make_fs};
use crate::mkfs::{build_device, gen_devspec, gen_volspec, Bias, DevSpec};
use crate::rng::Rng;
use crate::world::{Probes, Violation};
use serde::{Deserialize, Serialize};

#[derive(Serialize, Deserialize, Clone, Debug, PartialEq)]
pub struct Mutation {
    /// 0 = MBR, 1 = boot sector of the target volume, 2 = its FSInfo sector
    pub sector: u8,
    pub off: u16,
    pub bytes: Vec<u8>,
}

#[derive(Serialize, Deserialize, Clone, Debug, PartialEq)]
pub struct MountCase {
    pub dev: DevSpec,
    pub target: usize,
    pub muts: Vec<Mutation>,
    /// Some(seed): replace the sector (kind = seed % 3) by PRNG bytes, keeping signatures if bit 2 is set
    pub random_sector: Option<u64>,
    /// expect the library to refuse (FAT12-sized volume)
    pub expect_reject: bool,
    /// Some(L): the partition entry says the volume starts at block L (near 2^32) and the device really serves the
    /// volume's boot sector there
    #[serde(default)]
    pub relocate_to: Option<u32>,
    /// Some(seed): the volume manager has already been used on another medium (generated from that seed; the slot
    /// tried there is a different one), then the medium was exchanged and `device()` called
    #[serde(default)]
    pub swap_from: Option<u64>,
}

const BOOT_FIELDS: &[(u16, u8)] = &[(11, 2), (13, 1), (14, 2), (16, 1), (17, 2), (19, 2), (21, 1), (22, 2), (28, 4), (32, 4), (36, 4), (40, 2), (42, 2), (44, 4), (48, 2), (50, 2), (510, 2)];
const MBR_FIELDS_REL: &[(u16, u8)] = &[(0, 1), (4, 1), (8, 4), (12, 4)];
const INFO_FIELDS: &[(u16, u8)] = &[(0, 4), (484, 4), (488, 4), (492, 4), (508, 4)];

fn boundary_value(r: &mut Rng, len: u8) -> Vec<u8> {
    let max: u64 = if len >= 8 { u64::MAX } else { (1u64 << (8 * len as u32)) - 1 };
    let v = match r.below(9) {
        0 => 0,
        1 => 1,
        2 => max,
        3 => max - 1,
        4 => max / 2 + 1,
        5 => 2,
        6 => 0x80,
        7 => r.range(0, max),
        _ => 1u64 << r.below(8 * len as u64),
    };
    v.to_le_bytes()[..len as usize].to_vec()
}

pub fn gen_case(seed: u64) -> MountCase {
    let mut r = Rng::new(seed);
    let mut dev = gen_devspec(&mut r, Bias::Geometry, 3);
    // keep formatter work small: trees are not the point here, geometry is
    for v in dev.vols.iter_mut() {
        v.tree.free = None;
        v.tree.bad = v.tree.bad.min(2);
    }
    let target = r.usize_below(dev.vols.len());
    let mode = r.below(10);
    let mut muts = Vec::new();
    let mut random_sector = None;
    let mut expect_reject = false;
    let mut relocate_to = None;
    if r.chance(1, 12) {
        relocate_to = Some(*r.pick(&[0xFFFF_FFFFu32, 0xFFFF_FFFE, 0xFFFF_FFF0, 0xFFFF_FF00, 0xFFFF_FFFF - 31, 0xFFFF_FFFF - 32]));
    }
    match mode {
        0 | 1 | 2 => {} // valid as formatted
        3 => {
            // one below the FAT16 minimum: must be refused
            // (the volumes are re-packed below: bring a layout from the top of the block range down first)
            let low = dev.vols.iter().map(|v| v.lba).min().unwrap_or(1);
            if low >= 0x4000_0000 {
                for v in dev.vols.iter_mut() {
                    v.lba -= low - 1;
                }
            }
            let v = &mut dev.vols[target];
            let lba = v.lba;
            *v = gen_volspec(&mut r, Bias::Geometry, lba, v.slot);
            v.fat32 = false;
            v.ptype = 0x06;
            v.clusters = *r.pick(&[4084u32, 4084, 4000, 1]);
            v.root_entries = 512;
            v.reserved = 1;
            v.tree.files = 0;
            v.tree.dirs = 0;
            v.tree.free = None;
            v.tree.bad = 0;
            expect_reject = true;
            // re-pack the following volumes
            let mut next = dev.vols[target].lba + dev.vols[target].total_blocks() + 3;
            for i in target + 1..dev.vols.len() {
                dev.vols[i].lba = next;
                next += dev.vols[i].total_blocks() + 3;
            }
        }
        4 | 5 | 6 => {
            // field boundary values, one or two at a time
            for _ in 0..if r.chance(1, 2) { 1 } else { 2 } {
                let sector = r.below(3) as u8;
                let (off, len) = match sector {
                    0 => {
                        let (o, l) = *r.pick(MBR_FIELDS_REL);
                        (446 + 16 * dev.vols[target].slot as u16 + o, l)
                    }
                    1 => *r.pick(BOOT_FIELDS),
                    _ => *r.pick(INFO_FIELDS),
                };
                muts.push(Mutation { sector, off, bytes: boundary_value(&mut r, len) });
            }
        }
        7 | 8 => {
            // random bit flips
            for _ in 0..r.range(1, 64) {
                let sector = r.below(3) as u8;
                let off = if sector == 1 && r.chance(3, 4) { r.range(11, 90) as u16 } else { r.below(512) as u16 };
                muts.push(Mutation { sector, off, bytes: vec![1u8 << r.below(8)] });
            }
            // bit flips are XORs: marked by an empty-length convention (single byte, xor)
        }
        _ => {
            random_sector = Some(r.next_u64());
        }
    }
    // derived from the seed, not drawn: the stream above stays what older replay files were made with
    let mut r2 = Rng::new(seed ^ 0x5357_4150_4d45_4449);
    let swap_from = if r2.chance(1, 4) { Some(r2.next_u64()) } else { None };
    MountCase { dev, target, muts, random_sector, expect_reject, relocate_to, swap_from }
}

pub fn mount_eval(case: &MountCase, flips_are_xor: bool) -> CaseOutcome {
    let mut out = CaseOutcome::default();
    out.case = serde_json::to_value(case).unwrap();
    out.evaluations = 1;
    let mut probes = Probes::default();
    let mut viols: Vec<Violation> = Vec::new();
    let (mut img, outs) = build_device(&case.dev);
    let v = &case.dev.vols[case.target];
    let g0 = outs[case.target].geom.clone();
    let corrupted = !case.muts.is_empty() || case.random_sector.is_some() || case.relocate_to.is_some();
    let sector_block = |k: u8| -> u32 {
        match k {
            0 => 0,
            1 => v.lba,
            _ => {
                if v.fat32 {
                    v.lba + v.fsinfo_sector as u32
                } else {
                    v.lba
                }
            }
        }
    };
    for m in &case.muts {
        let blk = sector_block(m.sector);
        let mut b: Blk = img.get(blk);
        for (i, x) in m.bytes.iter().enumerate() {
            let o = m.off as usize + i;
            if o < 512 {
                if flips_are_xor && m.bytes.len() == 1 {
                    b[o] ^= *x;
                } else {
                    b[o] = *x;
                }
            }
        }
        img.set(blk, &b);
    }
    if let Some(s) = case.random_sector {
        let mut r = Rng::new(s);
        let blk = sector_block((s % 3) as u8);
        let mut b: Blk = [0u8; 512];
        r.fill(&mut b);
        if s & 4 != 0 {
            b[510] = 0x55;
            b[511] = 0xAA;
            if s % 3 == 2 {
                b[0..4].copy_from_slice(&0x4161_5252u32.to_le_bytes());
                b[484..488].copy_from_slice(&0x6141_7272u32.to_le_bytes());
                b[508..512].copy_from_slice(&0xAA55_0000u32.to_le_bytes());
            }
            if s % 3 == 0 {
                // keep a plausible partition entry for the target slot so that the boot sector gets parsed
                let o = 446 + 16 * v.slot as usize;
                b[o] = 0;
                b[o + 4] = v.ptype;
            }
            if s % 3 == 1 && s & 8 != 0 {
                // plausible bytes/sector so that parsing goes deeper
                b[11] = 0;
                b[12] = 2;
            }
        }
        img.set(blk, &b);
        probes.hit("random_sector");
    }
    if let Some(l) = case.relocate_to {
        // a huge (sparse) device whose last blocks hold this volume's boot sector and FSInfo sector
        img.num_blocks = u32::MAX;
        let boot = img.get(v.lba);
        img.set(l, &boot);
        if v.fat32 {
            if let Some(fi) = l.checked_add(v.fsinfo_sector as u32) {
                if fi < u32::MAX {
                    let info = img.get(v.lba + v.fsinfo_sector as u32);
                    img.set(fi, &info);
                }
            }
        }
        let o = 446 + 16 * v.slot as usize + 8;
        img.patch(0, o, &l.to_le_bytes());
        probes.hit("volume_relocated_to_the_end_of_the_32bit_block_range");
    }
    let clock = SimClock::new(0);
    let ro = RoDisk::new(&img);
    let slot = v.slot;
    // the medium that was in the slot before (medium exchange cases)
    let before: Option<(crate::disk::Image, u8)> = case.swap_from.map(|s| {
        let mut r = Rng::new(s);
        let mut d = gen_devspec(&mut r, Bias::Geometry, 2);
        for v in d.vols.iter_mut() {
            v.tree.free = None;
            v.tree.bad = 0;
            v.tree.files = v.tree.files.min(3);
            v.tree.dirs = v.tree.dirs.min(1);
        }
        // a slot other than the target's: an empty one fails right behind the partition table (whose block then is
        // the cached one), a used one leaves a mounted volume behind
        let oslot = (slot + 1 + (s % 3) as u8) % 4;
        (build_device(&d).0, oslot)
    });
    if let Some((other, oslot)) = &before {
        probes.hit(if case.swap_from.is_some() && other.get(0)[446 + 16 * *oslot as usize + 4] == 0 { "medium_exchanged_after_failed_mount" } else { "medium_exchanged_after_mount" });
    }
    let r = std::panic::catch_unwind(std::panic::AssertUnwindSafe(|| {
        let fs = make_fs(if before.is_some() { (4, 5, 2) } else { (4, 4, 1) }, &ro, &clock, 3);
        if let Some((other, oslot)) = &before {
            ro.alt.set(Some(other));
            let _ = fs.open_volume(*oslot as usize, 0);
            ro.alt.set(None);
            fs.touch_device();
        }
        let r = fs.open_volume(slot as usize, 0);
        match r {
            Ok(vh) => {
                // a successful mount must at least hand out the root directory
                let d = fs.open_root_dir(vh, 0);
                Ok(d.is_ok())
            }
            Err(e) => Err(err_name(&e)),
        }
    }));
    let mut h = 0xcbf29ce484222325u64;
    match &r {
        Err(_) => {
            let loc = crate::last_panic_location();
            viols.push(Violation { prop: "C15", oracle: "mount-panic".into(), disc: loc.clone(), detail: format!("open_volume panicked at {} ({})", loc, if corrupted { "corrupted sector" } else { "valid layout" }), op_idx: 0 });
        }
        Ok(Ok(_)) => {
            probes.hit(if corrupted { "corrupted_media_mounted" } else { "valid_media_mounted" });
            crate::rng::fnv_add(&mut h, b"ok");
        }
        Ok(Err(e)) => {
            probes.hit(if corrupted { "corrupted_media_rejected" } else { "valid_media_rejected" });
            crate::rng::fnv_add(&mut h, e.as_bytes());
        }
    }
    // ---- C04 clause, judged in the C04 batch: only the information-sector side is damaged (its contents, or the
    // boot sector's pointer to it), so the geometry is the formatter's and says where writes may go. If such a
    // medium mounts, creating and writing one small file must write nothing but FAT blocks, the root directory,
    // clusters that were free, and the information sector the formatter made - never the boot sector, the
    // partition table, a used cluster or a block outside the volume.
    let info_side_only = case.random_sector.map_or(true, |s| s % 3 == 2) && case.relocate_to.is_none() && case.muts.iter().all(|m| m.sector == 2 || (m.sector == 1 && (m.off == 48 || m.off == 49) && m.bytes.len() <= (50 - m.off as usize))) && (!case.muts.is_empty() || case.random_sector.is_some());
    if info_side_only && v.fat32 && matches!(r, Ok(Ok(_))) && !case.expect_reject {
        probes.hit("wrote_after_mounting_with_a_damaged_information_sector");
        let disk = crate::disk::SimDisk::new(img.clone());
        disk.set_cap(2_000_000);
        let g = &g0;
        let fat = FatView::load(&img, g, 0);
        let root_chain: Vec<u32> = fatspec::chain(&fat, g, g.root_cluster).0;
        let _ = std::panic::catch_unwind(std::panic::AssertUnwindSafe(|| {
            let fs = make_fs((4, 4, 1), &disk, &clock, 9);
            if let Ok(vh) = fs.open_volume(slot as usize, 0) {
                if let Ok(d) = fs.open_root_dir(vh, 0) {
                    if let Ok(f) = fs.open_file(d, &crate::fs::Name::Str("ZZNEW.TMP".into()), embedded_sdmmc::Mode::ReadWriteCreateOrTruncate, 0) {
                        let _ = fs.write(f, &[0x5Au8; 700], 0);
                        let _ = fs.flush_file(f, 0);
                        let _ = fs.close_file(f, 0);
                    }
                    let _ = fs.close_dir(d, 0);
                }
                let _ = fs.close_volume(vh, 0);
            }
        }));
        let st = disk.st.borrow();
        for e in st.log.iter().filter(|e| e.write) {
            let b = e.block;
            let ok = if b >= g.first_fat && b < g.first_fat + g.num_fats * g.fat_size {
                true
            } else if b == g.fsinfo {
                true
            } else {
                match g.block_cluster(b) {
                    Some(c) => root_chain.contains(&c) || fat.val(c) == fatspec::FatVal::Free,
                    None => false,
                }
            };
            if !ok {
                let what = if b == 0 { "the partition table".to_string() } else if b == g.part_lba { "the boot sector".to_string() } else if b < g.first_fat && b > g.part_lba { format!("reserved sector {}", b - g.part_lba) } else if g.block_cluster(b).is_some() { "a cluster that was in use".to_string() } else { "a block outside the volume".to_string() };
                viols.push(Violation { prop: "C04", oracle: "write-after-damaged-information-sector".into(), disc: what.split(' ').take(3).collect::<Vec<_>>().join("-"), detail: format!("block {} written ({}); boot sector says information sector {}, formatter put it at {}", b, what, u16::from_le_bytes([img.get(g.part_lba)[48], img.get(g.part_lba)[49]]), g.fsinfo - g.part_lba), op_idx: 0 });
                break;
            }
        }
    }
    if !corrupted {
        if case.expect_reject {
            probes.hit("fat12_sized_volume");
            if let Ok(Ok(_)) = r {
                viols.push(Violation { prop: "C15", oracle: "fat12-volume-mounted".into(), disc: String::new(), detail: format!("{} clusters", v.clusters), op_idx: 0 });
            }
        } else {
            match r {
                Ok(Err(e)) => viols.push(Violation { prop: "C15", oracle: "valid-layout-rejected".into(), disc: e.to_string(), detail: format!("{:?}", v), op_idx: 0 }),
                Ok(Ok(_)) => {
                    // everything the formatter put there must be found where the specification puts it
                    match Geom::parse(&img, g0.part_lba, g0.part_blocks) {
                        Ok(g) => {
                            let fat = FatView::load(&img, &g, 0);
                            let tree = fatspec::walk(&img, &g, &fat, &FsckOpts::default());
                            for (o, d) in lib_tree_compare_ex(&img, slot, &g, &tree, 0, before.as_ref().map(|(i, s)| (i, *s))) {
                                viols.push(Violation { prop: "C15", oracle: format!("valid-layout/{}", o), disc: format!("{}:spc{}:fats{}", if g.fat32 { "fat32" } else { "fat16" }, g.spc, g.num_fats), detail: d, op_idx: 0 });
                            }
                            // and the reader must agree with what the formatter intended
                            for m in &outs[case.target].manifest {
                                if !m.is_dir {
                                    crate::rng::fnv_add(&mut h, &m.hash.to_le_bytes());
                                }
                            }
                            if tree.files.len() + tree.dirs.len() > 1 {
                                probes.hit("valid_tree_walked_through_library");
                            }
                            match g.clusters {
                                4085 => probes.hit("boundary_4085_clusters"),
                                65524 => probes.hit("boundary_65524_clusters_fat16"),
                                65525 => probes.hit("boundary_65525_clusters_fat32"),
                                _ => {}
                            }
                            if g.spc == 128 {
                                probes.hit("128_blocks_per_cluster");
                            }
                            if v.slot > 0 {
                                probes.hit("partition_slot_other_than_0");
                            }
                        }
                        Err(e) => viols.push(Violation { prop: "C15", oracle: "harness-reader-rejects-formatter".into(), disc: String::new(), detail: e, op_idx: 0 }),
                    }
                }
                Err(_) => {}
            }
        }
    }
    out.nontrivial = true;
    crate::rng::fnv_add(&mut h, &serde_json::to_vec(&case.muts).unwrap());
    crate::rng::fnv_add(&mut h, &[v.spc, v.num_fats, v.slot, v.fat32 as u8]);
    crate::rng::fnv_add(&mut h, &v.clusters.to_le_bytes());
    out.ev_hash = h;
    out.probes = probes;
    out.viols = viols;
    out.dev_calls = ro.reads.get();
    out.faults.insert("corrupted_boot_mbr_fsinfo_bytes".into(), corrupted as u64);
    out
}

pub fn mount_case(seed: u64) -> CaseOutcome {
    let c = gen_case(seed);
    let xor = c.muts.len() > 2 || c.muts.iter().all(|m| m.bytes.len() == 1 && m.bytes[0].count_ones() == 1 && c.muts.len() > 2);
    let mut o = mount_eval(&c, xor);
    // record how the mutation list is to be read, for replay
    if let serde_json::Value::Object(m) = &mut o.case {
        m.insert("flips_are_xor".into(), serde_json::Value::Bool(xor));
    }
    o
}

/// the C04 slice: a FAT32 volume whose information sector, or the boot sector's pointer to it, is damaged
pub fn mount_case_info(seed: u64) -> CaseOutcome {
    let mut c = gen_case(seed);
    let mut r = Rng::new(seed ^ 0x696e_666f);
    c.muts.clear();
    c.random_sector = None;
    c.relocate_to = None;
    c.swap_from = None;
    if c.expect_reject || !c.dev.vols[c.target].fat32 {
        // make the target a FAT32 volume of its own
        let mut d = gen_devspec(&mut r, Bias::Info, 1);
        for _ in 0..8 {
            if d.vols[0].fat32 {
                break;
            }
            d = gen_devspec(&mut r, Bias::Info, 1);
        }
        for v in d.vols.iter_mut() {
            v.tree.bad = v.tree.bad.min(2);
        }
        c.dev = d;
        c.target = 0;
        c.expect_reject = false;
    }
    match r.below(10) {
        0..=4 => c.muts.push(Mutation { sector: 1, off: 48, bytes: boundary_value(&mut r, 2) }),
        5..=7 => {
            let (o, l) = *r.pick(INFO_FIELDS);
            c.muts.push(Mutation { sector: 2, off: o, bytes: boundary_value(&mut r, l) });
        }
        _ => c.random_sector = Some(r.next_u64() / 3 * 3 + 2),
    }
    let mut o = mount_eval(&c, false);
    if let serde_json::Value::Object(m) = &mut o.case {
        m.insert("flips_are_xor".into(), serde_json::Value::Bool(false));
    }
    o
}

pub fn mount_replay(v: &serde_json::Value) -> Result<CaseOutcome, String> {
    let xor = v.get("flips_are_xor").and_then(|x| x.as_bool()).unwrap_or(false);
    let c: MountCase = serde_json::from_value(v.clone()).map_err(|e| e.to_string())?;
    let mut o = mount_eval(&c, xor);
    if let serde_json::Value::Object(m) = &mut o.case {
        m.insert("flips_are_xor".into(), serde_json::Value::Bool(xor));
    }
    Ok(o)
}

pub fn mount_minimise(v: &serde_json::Value, sig: &str) -> serde_json::Value {
    let xor = v.get("flips_are_xor").and_then(|x| x.as_bool()).unwrap_or(false);
    let mut best: MountCase = match serde_json::from_value(v.clone()) {
        Ok(c) => c,
        Err(_) => return v.clone(),
    };
    let test = |c: &MountCase| mount_eval(c, xor).viols.iter().any(|x| x.signature() == sig);
    let mut i = 0;
    while i < best.muts.len() {
        let mut c = best.clone();
        c.muts.remove(i);
        if test(&c) {
            best = c;
        } else {
            i += 1;
        }
    }
    // drop volumes after the target, simplify trees
    while best.dev.vols.len() > best.target + 1 {
        let mut c = best.clone();
        c.dev.vols.pop();
        if test(&c) {
            best = c;
        } else {
            break;
        }
    }
    let mut c = best.clone();
    for v in c.dev.vols.iter_mut() {
        v.tree.files = 0;
        v.tree.dirs = 0;
        v.tree.lfn = false;
    }
    if test(&c) {
        best = c;
    }
    let mut o = serde_json::to_value(&best).unwrap();
    if let serde_json::Value::Object(m) = &mut o {
        m.insert("flips_are_xor".into(), serde_json::Value::Bool(xor));
    }
    o
}
