//! Execution of one operation against the library and the model, with the
//! per-call result oracles (C01 C05 C06 C07 C08) and the monitors.

use crate::clock::Cal;
use crate::fatspec::{self, DirLoc};
use crate::fs::{err_name, LibErr, Name};
use crate::names::sfn_parse;
use crate::ops::{Op, MODES, MODE_NAMES};
use crate::world::*;
use embedded_sdmmc::DirEntry;

pub enum Got<T> {
    Ok(T),
    Err(LibErr),
    Panic(PanicInfo),
}

impl<T> Got<T> {
    pub fn name(&self) -> &'static str {
        match self {
            Got::Ok(_) => "Ok",
            Got::Err(e) => err_name(e),
            Got::Panic(p) => {
                if p.hang {
                    "HANG"
                } else {
                    "PANIC"
                }
            }
        }
    }
}

pub fn got<T>(r: Result<Result<T, LibErr>, PanicInfo>) -> Got<T> {
    match r {
        Ok(Ok(v)) => Got::Ok(v),
        Ok(Err(e)) => Got::Err(e),
        Err(p) => Got::Panic(p),
    }
}

fn home_prop(opk: &str) -> &'static str {
    match opk {
        "read" | "write" | "seek_from_start" | "seek_from_current" | "seek_from_end" | "query" => "C01",
        "find_directory_entry" | "iterate_dir" => "C06",
        "open_volume" => "C15",
        "flush_file" | "close_file" => "C02",
        "close_volume" | "open_root_dir" | "close_dir" | "has_open_handles" | "stale_volume" | "stale_dir" | "stale_file" => "C08",
        _ => "C07",
    }
}

fn is_handle_err(n: &str) -> bool {
    matches!(n, "BadHandle" | "TooManyOpenVolumes" | "TooManyOpenDirs" | "TooManyOpenFiles" | "VolumeStillInUse" | "VolumeAlreadyOpen" | "LockError")
}

pub fn entry_cal(t: &embedded_sdmmc::Timestamp) -> Cal {
    Cal::of_timestamp(t)
}

impl<'a> World<'a> {
    /// Compare the result class with the acceptable set; on mismatch record a violation
    /// under the property that owns this kind of disagreement and stop the run.
    pub fn judge(&mut self, opk: &'static str, ctx: &str, gotn: &str, detail: &str, ok_allowed: bool, errs: &[&'static str]) -> bool {
        let accepted = if gotn == "Ok" { ok_allowed } else { errs.contains(&gotn) };
        self.ev(&format!("{}:{}:{}", opk, ctx, gotn));
        if self.faulty && self.disk.fired_total() > self.fired_mark {
            // C11: a device call failed during this API call: it must report an error
            self.fault_op = Some(self.op_idx);
            if gotn == "Ok" {
                self.swallowed = true;
                self.violate("C11", "device-error-swallowed", &format!("{}:{}", opk, ctx), format!("a block-device call failed during {} but the call returned Ok; {}", opk, detail));
            } else if gotn == "PANIC" || gotn == "HANG" {
                let lp = self.last_panic.clone();
                self.violate("C11", if gotn == "PANIC" { "panic-on-device-error" } else { "hang-on-device-error" }, opk, format!("{}; {}", lp, detail));
            }
            self.abort("fault fired");
            return false;
        }
        if accepted {
            return true;
        }
        let prop = if gotn == "PANIC" || gotn == "HANG" {
            home_prop(opk)
        } else if is_handle_err(gotn) || (!ok_allowed && errs.iter().all(|e| is_handle_err(e))) {
            "C08"
        } else if is_space_err(gotn) || (!errs.is_empty() && errs.iter().all(|e| is_space_err(e))) {
            "C05"
        } else if (opk == "open_dir" || opk == "change_dir") && (ok_allowed || errs.contains(&"NotFound")) {
            // "opening a sub-directory succeeds exactly for names that the listing contains" is C06's clause; what a
            // file or an invalid name gets is C07's
            "C06"
        } else {
            home_prop(opk)
        };
        let want = if ok_allowed { format!("Ok{}", if errs.is_empty() { String::new() } else { format!(" or {:?}", errs) }) } else { format!("{:?}", errs) };
        let oracle = if gotn == "PANIC" { "panic" } else if gotn == "HANG" { "hang" } else { "result" };
        let lp = if gotn == "PANIC" || gotn == "HANG" { format!(" [{}]", self.last_panic) } else { String::new() };
        self.violate(prop, oracle, &format!("{}:{}:got={}", opk, ctx, gotn), format!("expected {}; {}{}", want, detail, lp));
        self.abort("result mismatch");
        false
    }

    fn dir_of(&self, ds: u8) -> Option<(embedded_sdmmc::RawDirectory, DH)> {
        self.dslots.get(ds as usize)?.cur.clone()
    }
    fn file_of(&self, fs: u8) -> Option<(embedded_sdmmc::RawFile, FH)> {
        self.fslots.get(fs as usize)?.cur.clone()
    }

    fn check_new_handle(&mut self, num: u64, kind: &'static str) {
        let mut clash = false;
        for s in &self.vslots {
            if let Some((h, _)) = &s.cur {
                clash |= handle_num(h) == num;
            }
        }
        for s in &self.dslots {
            if let Some((h, _)) = &s.cur {
                clash |= handle_num(h) == num;
            }
        }
        for s in &self.fslots {
            if let Some((h, _)) = &s.cur {
                clash |= handle_num(h) == num;
            }
        }
        if clash {
            self.violate("C08", "handle-not-distinct", kind, format!("new handle {:#x} equals an open handle", num));
        }
    }

    /// Finish a call: absorb the log, run monitors, move the mark.
    pub fn finish(&mut self, opk: &'static str, allow: &Allow, mutating_vol: Option<usize>) -> CallEffect {
        let eff = match self.pending_eff.take() {
            Some(e) => e,
            None => self.absorb_log(),
        };
        if eff.writes > 0 || allow.read_only {
            self.monitor_c04(&eff, allow, opk);
            self.monitor_c16_copies(opk);
        }
        if eff.writes > 0 {
            // which volumes were written
            let mut vols: Vec<usize> = Vec::new();
            {
                let st = self.disk.st.borrow();
                for e in &st.log[self.log_mark..] {
                    if e.write && e.applied {
                        if let (Some(vi), _) = self.region_of(e.block) {
                            if !vols.contains(&vi) {
                                vols.push(vi);
                            }
                        }
                    }
                }
            }
            if let Some(v) = mutating_vol {
                if !vols.contains(&v) {
                    vols.push(v);
                }
            }
            for v in vols {
                self.monitor_structure(v, opk);
            }
        }
        crate::rng::fnv_add(&mut self.ev_hash, &eff.dev_calls.to_le_bytes());
        crate::rng::fnv_add(&mut self.ev_hash, &(eff.changed_bytes as u64).to_le_bytes());
        self.mark();
        eff
    }

    fn name_lookup(&self, vol: usize, dir: u32, n: &[u8; 11]) -> Option<&MNode> {
        self.vols[vol].dirs.get(&dir)?.entries.get(n)
    }

    pub fn step(&mut self, op: &Op) {
        if self.aborted.is_some() {
            return;
        }
        self.fired_mark = self.disk.fired_total();
        let opk = op.kind();
        match op.clone() {
            Op::Clock { secs } => {
                self.clock.set(secs);
                self.ev(&format!("clock:{}", secs));
            }
            Op::Checkpoint => {
                self.checkpoint(false);
            }
            Op::OpenVolume { vs, idx, fl } => self.op_open_volume(vs, idx, fl),
            Op::CloseVolume { vs, fl } => self.op_close_volume(vs, fl),
            Op::OpenRoot { vs, ds, fl } => self.op_open_root(vs, ds, fl),
            Op::OpenDir { ds, name, nds, fl } => self.op_open_dir(ds, &name, nds, fl),
            Op::ChangeDir { ds, name } => self.op_change_dir(ds, &name),
            Op::CloseDir { ds, fl } => self.op_close_dir(ds, fl),
            Op::Find { ds, name, fl } => self.op_find(ds, &name, fl),
            Op::Iterate { ds, fl, lfn, reent } => self.op_iterate(ds, fl, lfn, reent),
            Op::OpenFile { ds, name, mode, fs, fl } => self.op_open_file(ds, &name, mode, fs, fl),
            Op::CloseFile { fs, fl } => self.op_close_file(fs, fl, true),
            Op::Flush { fs, fl } => self.op_close_file(fs, fl, false),
            Op::Read { fs, len, fl } => self.op_read(fs, len, fl),
            Op::Write { fs, len, seed, fl } => self.op_write(fs, len, seed, fl),
            Op::SeekStart { fs, off, fl } => self.op_seek(fs, 0, off as i128, fl),
            Op::SeekCur { fs, delta, fl } => self.op_seek(fs, 1, delta as i128, fl),
            Op::SeekEnd { fs, back, fl } => self.op_seek(fs, 2, back as i128, fl),
            Op::Query { fs, fl } => self.op_query(fs, fl),
            Op::Delete { ds, name, fl } => self.op_delete(ds, &name, fl),
            Op::MkDir { ds, name, fl } => self.op_mkdir(ds, &name, fl),
            Op::Churn { vs, n } => self.op_churn(vs, n),
            Op::HasOpen => {
                let r = self.call(|fs| fs.has_open_handles());
                let want = self.open_dir_count() + self.open_file_count() > 0;
                match r {
                    Ok(b) => {
                        self.ev(&format!("has_open:{}", b));
                        if b != want {
                            self.violate("C08", "has-open-handles", &format!("dirs={} files={}", self.open_dir_count().min(1), self.open_file_count().min(1)), format!("returned {} with {} dirs and {} files open", b, self.open_dir_count(), self.open_file_count()));
                        }
                    }
                    Err(p) => {
                        self.violate("C08", "panic", "has_open_handles", p.msg);
                        self.abort("panic");
                    }
                }
                let a = Allow { read_only: true, ..Default::default() };
                self.finish(opk, &a, None);
            }
            Op::Label { vs } => {
                if let Some((h, _)) = self.vslots.get(vs as usize).and_then(|s| s.cur.clone()) {
                    let full = self.open_dir_count() >= self.limits.0;
                    let r = got(self.call(|fs| fs.volume_label(h)));
                    let n = r.name();
                    self.judge(opk, "", n, "", true, if full { &["TooManyOpenDirs"] } else { &[] });
                    let a = Allow { read_only: true, ..Default::default() };
                    self.finish(opk, &a, None);
                }
            }
            Op::StaleVol { vs, m } => self.op_stale_vol(vs, m),
            Op::StaleDir { ds, m } => self.op_stale_dir(ds, m),
            Op::StaleFile { fs, m } => self.op_stale_file(fs, m),
        }
        let _ = DirLoc::Fat16Root;
    }
}

pub fn sfn_bytes(n: &embedded_sdmmc::ShortFileName) -> [u8; 11] {
    // the public API exposes the name only through base_name()/extension()/Display;
    // reconstruct the 11 bytes from the raw parts (space padding is not part of either)
    let mut out = [b' '; 11];
    // base_name() stops at the first space; names with inner spaces are reconstructed via Display of each byte
    let dbg = format!("{}", n);
    let _ = dbg;
    let b = n.base_name();
    let e = n.extension();
    out[..b.len()].copy_from_slice(b);
    out[8..8 + e.len()].copy_from_slice(e);
    out
}

pub fn attr_bits(a: &embedded_sdmmc::Attributes) -> u8 {
    let mut v = 0u8;
    if a.is_read_only() {
        v |= 1;
    }
    if a.is_hidden() {
        v |= 2;
    }
    if a.is_system() {
        v |= 4;
    }
    if a.is_volume() {
        v |= 8;
    }
    if a.is_directory() {
        v |= 0x10;
    }
    if a.is_archive() {
        v |= 0x20;
    }
    v
}

pub fn cluster_num(c: &embedded_sdmmc::ClusterId) -> u32 {
    let s = format!("{:?}", c);
    // "ClusterId(0000abcd)" or named constants
    let inner = s.trim_start_matches("ClusterId(").trim_end_matches(')').trim();
    match inner {
        "INVALID" => 0xFFFF_FFF6,
        "BAD" => 0xFFFF_FFF7,
        "EMPTY" => 0,
        "ROOT" => 0xFFFF_FFFC,
        "EOF" => 0xFFFF_FFFF,
        h => u32::from_str_radix(h, 16).unwrap_or(0xDEAD_BEEF),
    }
}

/// None if the library's decoded timestamp equals the reader's decoding of the same words.
pub fn cmp_time(t: &embedded_sdmmc::Timestamp, c: Cal) -> Option<String> {
    // the library reports month/day zero-based and tolerates 0 in the stored fields
    let want_m = if c.month == 0 { 0 } else { c.month - 1 };
    let want_d = if c.day == 0 { 0 } else { c.day - 1 };
    if t.year_since_1970 as u16 + 1970 != c.year || t.zero_indexed_month != want_m || t.zero_indexed_day != want_d || t.hours != c.h || t.minutes != c.m || t.seconds != c.s {
        Some(format!("{:?} vs {:?}", t, c))
    } else {
        None
    }
}

pub fn parse_name(name: &str) -> Result<[u8; 11], ()> {
    sfn_parse(name)
}

pub fn mode_name(m: u8) -> &'static str {
    MODE_NAMES[m as usize % 6]
}
pub fn mode_of(m: u8) -> embedded_sdmmc::Mode {
    MODES[m as usize % 6]
}
