//! fs-sim world: the real library on SimDisk/SimClock next to the reference model.
//! This file holds the state, the per-call bookkeeping (write-log processing, ground
//! truth FAT view) and the per-call monitors (C03 C04 C05 C16).

use crate::clock::{Cal, SimClock};
use crate::disk::{Blk, SimDisk};
use crate::fatspec::{self, DirLoc, FatVal, FatView, FsckOpts, Geom};
use crate::fs::{Fs, LibErr};
use crate::mkfs::{DevSpec, VolOut};
use crate::ops::Op;
use embedded_sdmmc::{RawDirectory, RawFile, RawVolume};
use std::collections::{BTreeMap, BTreeSet};

#[derive(Clone, Debug, PartialEq, Eq)]
pub struct Violation {
    pub prop: &'static str,
    pub oracle: String,
    pub disc: String,
    pub detail: String,
    pub op_idx: usize,
}

impl Violation {
    pub fn signature(&self) -> String {
        format!("{}|{}|{}", self.prop, self.oracle, self.disc)
    }
}

#[derive(Clone, Debug)]
pub enum Content {
    Mem(Vec<u8>),
    /// not read yet: take it from the medium on first need (pre-existing files)
    Lazy(u32),
}

#[derive(Clone, Debug)]
pub struct MFile {
    pub data: Content,
    pub attr: u8,
    pub ctime: Cal,
    pub mtime_ok: Vec<Cal>,
    pub open: Option<u8>,
    pub touched: bool,
    /// raw slot as formatted, while untouched
    pub init_raw: Option<[u8; 32]>,
    /// size recorded in the directory entry
    pub disk_size: u32,
    pub loc: (u32, u16),
    /// no unflushed change: the medium must show exactly `data`
    pub clean: bool,
    /// initial chain of an untouched file
    pub init_chain: Vec<u32>,
    /// a flush or close of this file returned success and it has not been modified since (C09)
    pub durable: bool,
}

#[derive(Clone, Debug)]
pub enum MNode {
    File(MFile),
    Dir(u32),
    Other,
}

#[derive(Clone, Debug)]
pub struct MDir {
    pub parent: Option<u32>,
    pub loc: DirLoc,
    pub entries: BTreeMap<[u8; 11], MNode>,
    pub touched: bool,
    pub init_slots: Vec<[u8; 32]>,
}

pub struct VolState {
    pub geom: Geom,
    pub mbr_slot: u8,
    pub fat: FatView,
    pub used: u32,
    pub free: u32,
    pub dirs: BTreeMap<u32, MDir>,
    pub next_dir: u32,
    pub mounted: bool,
    /// (count, hint) stored in FSInfo when the volume was opened, ground-truth free count then
    pub info_at_mount: Option<(u32, u32, u32)>,
    /// did the hint stored at mount name a free cluster
    pub hint_named_free_at_mount: bool,
    pub fat_changed_since_mount: bool,
    /// lost clusters already reported (a leak is reported when it grows)
    pub lost_seen: u32,
    /// lowest ground-truth free count seen since mount (to know whether a stale FSInfo count can have saturated)
    pub min_free_since_mount: u32,
    /// highest ground-truth free count seen since mount (a stale count near u32::MAX can have saturated at the top)
    pub max_free_since_mount: u32,
}

#[derive(Clone, Debug)]
pub struct VH {
    pub vol: usize,
}
#[derive(Clone, Debug)]
pub struct DH {
    pub vol: usize,
    pub dir: u32,
}
#[derive(Clone, Debug)]
pub struct FH {
    pub vol: usize,
    pub dir: u32,
    pub name: [u8; 11],
    pub writable: bool,
    pub off: u32,
    pub chain: Vec<u32>,
    /// the library's "dirty" notion: a write call was made (even a failing / empty one)
    pub dirty: bool,
    /// a write call was made at some point since the open (the library keeps re-writing the entry on every later flush)
    pub ever_dirty: bool,
}

pub struct HSlot<H, I> {
    pub cur: Option<(H, I)>,
    pub dead: Option<H>,
}

impl<H, I> Default for HSlot<H, I> {
    fn default() -> Self {
        HSlot { cur: None, dead: None }
    }
}

#[derive(Default, Clone, Debug)]
pub struct Probes {
    pub m: BTreeMap<&'static str, u64>,
}
impl Probes {
    pub fn hit(&mut self, k: &'static str) {
        *self.m.entry(k).or_insert(0) += 1;
    }
    pub fn add(&mut self, k: &'static str, n: u64) {
        *self.m.entry(k).or_insert(0) += n;
    }
    pub fn merge(&mut self, o: &Probes) {
        for (k, v) in &o.m {
            *self.m.entry(k).or_insert(0) += v;
        }
    }
}

#[derive(Clone, Debug)]
pub struct PanicInfo {
    pub hang: bool,
    pub msg: String,
}

/// What a single API call did to the medium, computed from the write log.
#[derive(Default, Clone)]
pub struct CallEffect {
    pub writes: usize,
    pub changed_bytes: usize,
    /// per volume: FAT entries whose value changed (cluster, old raw, new raw)
    pub fat_changes: Vec<(usize, u32, u32, u32)>,
    pub dev_calls: u64,
}

/// What the model allows the current call to change (C04).
#[derive(Default, Clone)]
pub struct Allow {
    pub vol: Option<usize>,
    /// clusters whose FAT entries may change besides previously free ones
    pub fat_clusters: BTreeSet<u32>,
    /// directory slots (block, offset) the call owns
    pub slots: Vec<(u32, u16)>,
    /// byte ranges of data blocks belonging to the written file range: block -> (lo, hi)
    pub ranges: BTreeMap<u32, (usize, usize)>,
    /// file byte range to be located through the post-call chain
    pub file_range: Option<(usize, u32, u32)>, // (fslot, off, len)
    /// a slot to be located after the call: (vol, dir id, name)
    pub new_slot: Option<(usize, u32, [u8; 11])>,
    pub may_write_info: bool,
    pub read_only: bool,
    /// the call was refused: any change is a C07 matter
    pub refused: bool,
    /// the call only ever extends chains (write): an entry that linked two clusters before the call keeps its value
    pub extend_only: bool,
}

pub struct World<'a> {
    pub disk: &'a SimDisk,
    pub clock: &'a SimClock,
    pub fs: Box<dyn Fs + 'a>,
    pub dev: DevSpec,
    pub vols: Vec<VolState>,
    pub vslots: Vec<HSlot<RawVolume, VH>>,
    pub dslots: Vec<HSlot<RawDirectory, DH>>,
    pub fslots: Vec<HSlot<RawFile, FH>>,
    pub limits: (usize, usize, usize),
    pub viols: Vec<Violation>,
    pub aborted: Option<String>,
    pub log_mark: usize,
    pub probes: Probes,
    pub ev_hash: u64,
    pub op_idx: usize,
    /// fault-injection mode: result oracles are relaxed by the fault engine
    pub faulty: bool,
    pub mutating_ok: u64,
    pub state_hashes: BTreeSet<u64>,
    pub trace: Vec<String>,
    pub keep_trace: bool,
    pub pending_eff: Option<CallEffect>,
    /// fault engine: number of faults that had fired when the current op started
    pub fired_mark: u64,
    /// fault engine: the op during which a fault fired
    pub fault_op: Option<usize>,
    /// names whose state is unconstrained after a failed call: (vol, dir, name)
    pub relax: BTreeSet<(usize, u32, [u8; 11])>,
    pub last_panic: String,
    /// fault engine: the faulted call returned Ok (its effects are unknown to the model)
    pub swallowed: bool,
}

pub fn handle_num<T: std::fmt::Debug>(h: &T) -> u64 {
    // "RawFile(0x001388)" -> 0x1388
    let s = format!("{:?}", h);
    let hex = s.rsplit("0x").next().unwrap_or("0").trim_end_matches(')');
    u64::from_str_radix(hex, 16).unwrap_or(u64::MAX)
}

pub fn is_space_err(n: &str) -> bool {
    matches!(n, "DiskFull" | "NotEnoughSpace" | "AllocationError")
}

impl<'a> World<'a> {
    pub fn new(disk: &'a SimDisk, clock: &'a SimClock, fs: Box<dyn Fs + 'a>, dev: &DevSpec, outs: &[VolOut]) -> World<'a> {
        let limits = fs.limits();
        let mut vols = Vec::new();
        for (v, o) in dev.vols.iter().zip(outs.iter()) {
            let (fat, tree) = disk.with_image(|img| {
                let fat = FatView::load(img, &o.geom, 0);
                let tree = fatspec::walk(img, &o.geom, &fat, &FsckOpts::default());
                (fat, tree)
            });
            let mut dirs: BTreeMap<u32, MDir> = BTreeMap::new();
            // tree.dirs index == model dir id
            for (i, d) in tree.dirs.iter().enumerate() {
                let mut entries = BTreeMap::new();
                for e in &d.ents {
                    if e.is_vol() && !e.is_dir() {
                        entries.insert(e.name, MNode::Other);
                    } else if e.is_dir() {
                        if e.is_dot() {
                            continue;
                        }
                        let mut p = d.path.clone();
                        p.push(e.name);
                        if let Some(ci) = tree.find_dir(&p) {
                            entries.insert(e.name, MNode::Dir(ci as u32));
                        } else {
                            entries.insert(e.name, MNode::Other);
                        }
                    } else {
                        let chain = tree.file_chain(i, &e.name).cloned().unwrap_or_default();
                        entries.insert(
                            e.name,
                            MNode::File(MFile {
                                data: Content::Lazy(e.size),
                                attr: e.attr,
                                ctime: e.ctime,
                                mtime_ok: vec![e.mtime],
                                open: None,
                                touched: false,
                                init_raw: Some(e.raw),
                                disk_size: e.size,
                                loc: (e.block, e.off),
                                clean: true,
                                init_chain: chain,
                                durable: false,
                            }),
                        );
                    }
                }
                dirs.insert(
                    i as u32,
                    MDir { parent: d.parent.map(|p| p as u32), loc: d.loc, entries, touched: false, init_slots: d.slots.iter().map(|s| s.raw).collect() },
                );
            }
            let used = fat.used_count();
            let free = fat.free_count();
            let next_dir = tree.dirs.len() as u32;
            vols.push(VolState { geom: o.geom.clone(), mbr_slot: v.slot, fat, used, free, dirs, next_dir, mounted: false, info_at_mount: None, hint_named_free_at_mount: false, fat_changed_since_mount: false, lost_seen: 0, min_free_since_mount: free, max_free_since_mount: free });
        }
        let mk = |n: usize| n + 1;
        World {
            disk,
            clock,
            fs,
            dev: dev.clone(),
            vols,
            vslots: (0..mk(limits.2)).map(|_| HSlot::default()).collect(),
            dslots: (0..mk(limits.0)).map(|_| HSlot::default()).collect(),
            fslots: (0..mk(limits.1)).map(|_| HSlot::default()).collect(),
            limits,
            viols: Vec::new(),
            aborted: None,
            log_mark: disk.log_len(),
            probes: {
                let mut p = Probes::default();
                if dev.vols.iter().any(|v| v.lba >= 0x8000_0000) {
                    p.hit("volume_beyond_2_31_blocks");
                }
                if dev.vols.iter().any(|v| v.lba as u64 + v.total_blocks() as u64 >= 0xFFFF_F000) {
                    p.hit("volume_at_the_top_of_the_32_bit_block_range");
                }
                p
            },
            ev_hash: 0xcbf29ce484222325,
            op_idx: 0,
            faulty: false,
            mutating_ok: 0,
            state_hashes: BTreeSet::new(),
            trace: Vec::new(),
            keep_trace: false,
            pending_eff: None,
            fired_mark: 0,
            fault_op: None,
            relax: BTreeSet::new(),
            last_panic: String::new(),
            swallowed: false,
        }
    }

    pub fn violate(&mut self, prop: &'static str, oracle: &str, disc: &str, detail: String) {
        // the cap is per property: a flood of one property's findings must not hide another's
        if self.viols.iter().filter(|v| v.prop == prop).count() < 12 {
            self.viols.push(Violation { prop, oracle: oracle.to_string(), disc: disc.to_string(), detail, op_idx: self.op_idx });
        }
    }

    pub fn abort(&mut self, why: &str) {
        if self.aborted.is_none() {
            self.aborted = Some(why.to_string());
        }
    }

    pub fn ev(&mut self, s: &str) {
        crate::rng::fnv_add(&mut self.ev_hash, s.as_bytes());
        if self.keep_trace {
            self.trace.push(s.to_string());
        }
    }

    pub fn open_vol_count(&self) -> usize {
        self.vslots.iter().filter(|s| s.cur.is_some()).count()
    }
    pub fn open_dir_count(&self) -> usize {
        self.dslots.iter().filter(|s| s.cur.is_some()).count()
    }
    pub fn open_file_count(&self) -> usize {
        self.fslots.iter().filter(|s| s.cur.is_some()).count()
    }

    /// Run one library call under catch_unwind with a device-call cap (hang detector).
    pub fn call<R>(&mut self, f: impl FnOnce(&dyn Fs) -> R) -> Result<R, PanicInfo> {
        let cap = self.disk.calls() + 3_000_000;
        self.disk.set_cap(cap);
        let fs: &dyn Fs = &*self.fs;
        let r = std::panic::catch_unwind(std::panic::AssertUnwindSafe(|| f(fs)));
        self.disk.set_cap(u64::MAX);
        match r {
            Ok(v) => Ok(v),
            Err(p) => {
                let hang = p.downcast_ref::<crate::disk::HangMarker>().is_some();
                let msg = if hang {
                    "device-call cap exceeded".to_string()
                } else if let Some(s) = p.downcast_ref::<&str>() {
                    s.to_string()
                } else if let Some(s) = p.downcast_ref::<String>() {
                    s.clone()
                } else {
                    "panic".to_string()
                };
                let loc = crate::last_panic_location();
                self.last_panic = format!("{} @ {}", msg, loc);
                Err(PanicInfo { hang, msg: format!("{} @ {}", msg, loc) })
            }
        }
    }

    pub fn materialise(&mut self, vol: usize, dir: u32, name: &[u8; 11]) {
        let need = match self.vols[vol].dirs.get(&dir).and_then(|d| d.entries.get(name)) {
            Some(MNode::File(f)) => matches!(f.data, Content::Lazy(_)),
            _ => false,
        };
        if !need {
            return;
        }
        let (size, chain) = match self.vols[vol].dirs[&dir].entries.get(name) {
            Some(MNode::File(f)) => (f.disk_size, f.init_chain.clone()),
            _ => return,
        };
        let g = self.vols[vol].geom.clone();
        let data = self.disk.with_image(|img| fatspec::read_chain_bytes(img, &g, &chain, size));
        if let Some(MNode::File(f)) = self.vols[vol].dirs.get_mut(&dir).unwrap().entries.get_mut(name) {
            f.data = Content::Mem(data);
        }
    }

    pub fn file_mut(&mut self, vol: usize, dir: u32, name: &[u8; 11]) -> Option<&mut MFile> {
        match self.vols[vol].dirs.get_mut(&dir)?.entries.get_mut(name) {
            Some(MNode::File(f)) => Some(f),
            _ => None,
        }
    }
    pub fn file_ref(&self, vol: usize, dir: u32, name: &[u8; 11]) -> Option<&MFile> {
        match self.vols[vol].dirs.get(&dir)?.entries.get(name) {
            Some(MNode::File(f)) => Some(f),
            _ => None,
        }
    }

    /// Ground truth listing of a model directory, straight from the medium.
    pub fn disk_dir(&self, vol: usize, dir: u32) -> (Vec<fatspec::Slot>, Vec<u32>, Vec<fatspec::Ent>) {
        let v = &self.vols[vol];
        let loc = v.dirs[&dir].loc;
        self.disk.with_image(|img| {
            let (slots, ch, _) = fatspec::dir_slots(img, &v.geom, &v.fat, loc);
            let ents = fatspec::live_entries(&slots, v.geom.fat32);
            (slots, ch, ents)
        })
    }

    /// Does the directory have a slot a new entry could go into without growing?
    pub fn dir_has_free_slot(&self, vol: usize, dir: u32) -> bool {
        let (slots, _, _) = self.disk_dir(vol, dir);
        slots.iter().any(|s| s.raw[0] == 0 || s.raw[0] == 0xE5)
    }

    pub fn free_clusters(&self, vol: usize) -> u32 {
        self.vols[vol].free
    }

    /// Process the write log since the last mark: refresh the ground-truth FAT views and
    /// summarise what the call did.
    pub fn absorb_log(&mut self) -> CallEffect {
        let mut eff = CallEffect::default();
        let st = self.disk.st.borrow();
        let log = &st.log[self.log_mark..];
        eff.dev_calls = log.len() as u64;
        let mut touched_fat_blocks: BTreeSet<(usize, u32)> = BTreeSet::new();
        // the free count as it moved write by write (a cluster taken and given back inside one call is a dip the
        // net effect does not show, but a stale FSInfo count that saturates at zero feels it)
        let mut running: Vec<i64> = self.vols.iter().map(|v| v.free as i64).collect();
        let mut dips: Vec<(i64, i64)> = running.iter().map(|&f| (f, f)).collect();
        for e in log {
            if !e.write || !e.applied {
                continue;
            }
            eff.writes += 1;
            if let (Some(pre), Some(data)) = (&e.pre, &e.data) {
                eff.changed_bytes += pre.iter().zip(data.iter()).filter(|(a, b)| a != b).count();
            }
            for (vi, v) in self.vols.iter().enumerate() {
                let g = &v.geom;
                if e.block >= g.first_fat && e.block < g.first_fat + g.fat_size {
                    touched_fat_blocks.insert((vi, e.block));
                    if let (Some(pre), Some(data)) = (&e.pre, &e.data) {
                        let eb = g.entry_bytes() as usize;
                        let first = (e.block - g.first_fat) as usize * (512 / eb);
                        for k in 0..512 / eb {
                            let c = first + k;
                            if c < 2 || c >= (g.clusters + 2) as usize {
                                continue;
                            }
                            let rd = |b: &[u8; 512]| if eb == 2 { u16::from_le_bytes([b[k * 2], b[k * 2 + 1]]) as u32 } else { u32::from_le_bytes([b[k * 4], b[k * 4 + 1], b[k * 4 + 2], b[k * 4 + 3]]) & 0x0FFF_FFFF };
                            let (o, n) = (rd(pre), rd(data));
                            if o == 0 && n != 0 {
                                running[vi] -= 1;
                            } else if o != 0 && n == 0 {
                                running[vi] += 1;
                            }
                            dips[vi].0 = dips[vi].0.min(running[vi]);
                            dips[vi].1 = dips[vi].1.max(running[vi]);
                        }
                    }
                }
            }
        }
        for (vi, v) in self.vols.iter_mut().enumerate() {
            if dips[vi].0 < v.min_free_since_mount as i64 {
                v.min_free_since_mount = dips[vi].0.max(0) as u32;
            }
            if dips[vi].1 > v.max_free_since_mount as i64 {
                v.max_free_since_mount = dips[vi].1.min(u32::MAX as i64) as u32;
            }
        }
        for (vi, blk) in touched_fat_blocks {
            let v = &mut self.vols[vi];
            let g = v.geom.clone();
            let per = 512 / g.entry_bytes() as usize;
            let first = (blk - g.first_fat) as usize * per;
            let old: Vec<u32> = (first..(first + per).min(v.fat.raw.len())).map(|c| v.fat.raw[c]).collect();
            let old_vals: Vec<FatVal> = (first..(first + per).min(v.fat.raw.len())).map(|c| v.fat.val(c as u32)).collect();
            v.fat.refresh_block(&st.image, &g, blk);
            for (i, &o) in old.iter().enumerate() {
                let c = (first + i) as u32;
                let n = v.fat.raw[c as usize];
                if n != o {
                    if c >= 2 {
                        let was_used = !matches!(old_vals[i], FatVal::Free | FatVal::Bad);
                        let is_used = !matches!(v.fat.val(c), FatVal::Free | FatVal::Bad);
                        if was_used && !is_used {
                            v.used -= 1;
                        } else if !was_used && is_used {
                            v.used += 1;
                        }
                        let was_free = old_vals[i] == FatVal::Free;
                        let is_free = v.fat.val(c) == FatVal::Free;
                        if was_free && !is_free {
                            v.free -= 1;
                            if v.free < v.min_free_since_mount {
                                v.min_free_since_mount = v.free;
                            }
                        } else if !was_free && is_free {
                            v.free += 1;
                            if v.free > v.max_free_since_mount {
                                v.max_free_since_mount = v.free;
                            }
                        }
                    }
                    eff.fat_changes.push((vi, c, o, n));
                    v.fat_changed_since_mount = true;
                }
            }
        }
        eff
    }

    /// absorb the log now (idempotent until the next mark) so that the FAT view is current
    pub fn absorb_early(&mut self) -> CallEffect {
        if self.pending_eff.is_none() {
            let e = self.absorb_log();
            self.pending_eff = Some(e);
        }
        self.pending_eff.clone().unwrap()
    }

    pub fn mark(&mut self) {
        self.log_mark = self.disk.log_len();
    }

    pub fn was_free_before(&self, eff: &CallEffect, vol: usize, c: u32) -> bool {
        let v = &self.vols[vol];
        if c < 2 || c >= v.fat.n() {
            return false;
        }
        let mask = if v.geom.fat32 { 0x0FFF_FFFF } else { 0xFFFF };
        for &(vi, cc, old, _) in &eff.fat_changes {
            if vi == vol && cc == c {
                return old & mask == 0;
            }
        }
        v.fat.val(c) == FatVal::Free
    }
}

pub fn blk_diff(pre: &Blk, data: &Blk) -> Vec<usize> {
    (0..512).filter(|&i| pre[i] != data[i]).collect()
}
