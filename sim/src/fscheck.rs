//! The fs-sim history checks (C01-C08, C16): case runner, replay, minimisation.

use crate::batch::*;
use crate::gen::profile_for;
use crate::ops::{Op, Scenario};
use crate::rng::Rng;
use crate::runner::{gen_header, run, RunResult, Source};
use crate::world::Violation;
use serde_json::{json, Value};

/// C16: "a wrong or out-of-range record found at mount never makes an operation fail or panic". A panic is
/// blamed on the record only by experiment: the same operations on the same device with truthful records
/// must run without it. (Only reached when a call has panicked.)
fn blame_record_for_panic(prop: &str, r: &mut RunResult) {
    if prop != "C16" {
        return;
    }
    let panicked: Option<Violation> = r.viols.iter().find(|v| v.oracle == "panic").cloned();
    let v = match panicked {
        Some(v) => v,
        None => return,
    };
    if !r.scenario.dev.vols.iter().any(|x| x.fat32 && x.fsinfo != crate::mkfs::FsInfoKind::Correct) {
        return;
    }
    let mut truthful = r.scenario.clone();
    for x in truthful.dev.vols.iter_mut() {
        x.fsinfo = crate::mkfs::FsInfoKind::Correct;
    }
    let ops = truthful.ops.clone();
    let again = run(&truthful, Source::Replay(&ops), false, true);
    if !again.viols.iter().any(|x| x.oracle == "panic") {
        r.viols.push(Violation { prop: "C16", oracle: "operation-panics-on-wrong-fsinfo".into(), disc: v.disc.split(':').next().unwrap_or("").to_string(), detail: format!("{} (the same operations on the same device with truthful FSInfo records do not panic)", v.detail), op_idx: v.op_idx });
    }
}

fn outcome_of(prop: &str, mut r: RunResult) -> CaseOutcome {
    blame_record_for_panic(prop, &mut r);
    let p = &r.probes.m;
    let g = |k: &str| p.get(k).copied().unwrap_or(0);
    let nontrivial = match prop {
        "C01" => g("read_nonempty") > 0 && g("write_nonempty") > 0,
        "C06" => g("listing_checked") > 0,
        "C07" | "C08" => r.api_calls >= 3,
        _ => r.mutating_ok > 0,
    };
    let foreign_abort = r.aborted.is_some() && !r.viols.iter().any(|v| v.prop == prop);
    let span = if r.clock_span.1 >= r.clock_span.0 { r.clock_span.1 - r.clock_span.0 } else { 0 };
    CaseOutcome {
        viols: r.viols,
        probes: r.probes,
        ev_hash: r.ev_hash,
        nontrivial,
        evaluations: 1,
        sim_seconds: span,
        faults: Default::default(),
        states: r.states,
        api_calls: r.api_calls,
        dev_calls: r.dev_calls,
        foreign_abort,
        case: serde_json::to_value(&r.scenario).unwrap(),
    }
}

pub fn fs_case(prop: &str, seed: u64) -> CaseOutcome {
    let mut rng = Rng::new(seed);
    let p = profile_for(prop);
    let header = gen_header(&mut rng, &p);
    let r = run(&header, Source::Generate { rng, profile: p }, false, true);
    outcome_of(prop, r)
}

pub fn fs_replay_scenario(prop: &str, sc: &Scenario) -> CaseOutcome {
    let ops = sc.ops.clone();
    let r = run(sc, Source::Replay(&ops), false, true);
    outcome_of(prop, r)
}

pub fn fs_replay(prop: &str, case: &Value) -> Result<CaseOutcome, String> {
    let sc: Scenario = serde_json::from_value(case.clone()).map_err(|e| format!("bad scenario: {}", e))?;
    Ok(fs_replay_scenario(prop, &sc))
}

fn has_sig(prop: &str, sc: &Scenario, sig: &str) -> Option<(Violation, u64)> {
    let out = fs_replay_scenario(prop, sc);
    out.viols.iter().find(|v| v.prop == prop && v.signature() == sig).cloned().map(|v| (v, out.ev_hash))
}

/// Delta-debug the operation list, then simplify the device, while the same violation
/// signature persists. Budget-bounded.
pub fn fs_minimise(prop: &str, sc: &Scenario, sig: &str, budget: usize) -> Scenario {
    let test = |c: &Scenario| has_sig(prop, c, sig).map(|(v, _)| v.op_idx);
    minimise_with(sc, budget, &test)
}

/// Generic scenario minimiser: `test` returns Some(op index of the violation) while the same
/// violation signature persists.
pub fn minimise_with(sc: &Scenario, budget: usize, test: &dyn Fn(&Scenario) -> Option<usize>) -> Scenario {
    let mut best = sc.clone();
    let mut tries = 0usize;
    // cut the tail after the violating op first
    if let Some(op_idx) = test(&best) {
        if op_idx + 1 < best.ops.len() {
            let mut c = best.clone();
            c.ops.truncate(op_idx + 1);
            if test(&c).is_some() {
                best = c;
            }
        }
    }
    // ddmin over ops
    let mut chunk = (best.ops.len() / 2).max(1);
    while chunk >= 1 && tries < budget {
        let mut i = 0;
        let mut removed_any = false;
        while i < best.ops.len() && tries < budget {
            let mut c = best.clone();
            let end = (i + chunk).min(c.ops.len());
            c.ops.drain(i..end);
            tries += 1;
            if test(&c).is_some() {
                best = c;
                removed_any = true;
            } else {
                i += chunk;
            }
        }
        if chunk == 1 && !removed_any {
            break;
        }
        if !removed_any || chunk > 1 {
            chunk = if chunk == 1 { 1 } else { chunk / 2 };
        }
    }
    // simplify: drop volumes no op can reach is hard to know; try dropping trailing volumes
    while best.dev.vols.len() > 1 && tries < budget {
        let mut c = best.clone();
        c.dev.vols.pop();
        tries += 1;
        if test(&c).is_some() {
            best = c;
        } else {
            break;
        }
    }
    // simplify trees and flavours
    let tweaks: Vec<fn(&mut Scenario)> = vec![
        |s| s.dev.foreign_slot = None,
        |s| s.dev.extra_blocks = 0,
        |s| s.dev.stale_fill = false,
        |s| for v in s.dev.vols.iter_mut() { v.tree.lfn = false; v.tree.deleted = false; v.tree.latin1 = false; v.tree.vol_label = false; },
        |s| for v in s.dev.vols.iter_mut() { v.tree.dirs = 0; },
        |s| for v in s.dev.vols.iter_mut() { v.tree.files = v.tree.files.min(2); },
        |s| for v in s.dev.vols.iter_mut() { v.tree.bad = 0; v.tree.high_nibble = false; v.tree.fragment = false; },
        |s| for v in s.dev.vols.iter_mut() { v.fat_extra = 0; v.tail = 0; v.label = false; },
        |s| for v in s.dev.vols.iter_mut() { v.num_fats = 1; },
        |s| for v in s.dev.vols.iter_mut() { v.spc = 1; v.tail = 0; },
        |s| s.limits = (4, 4, 1),
        |s| s.id_offset = 5000,
        |s| for o in s.ops.iter_mut() { set_flavour(o, 0); },
        |s| s.ops.retain(|o| !matches!(o, Op::Clock { .. })),
    ];
    for t in tweaks {
        if tries >= budget {
            break;
        }
        let mut c = best.clone();
        t(&mut c);
        if c == best {
            continue;
        }
        tries += 1;
        if test(&c).is_some() {
            best = c;
        }
    }
    // shrink write lengths
    for i in 0..best.ops.len() {
        if tries >= budget {
            break;
        }
        if let Op::Write { len, .. } = best.ops[i] {
            for cand in [1u32, 512, len / 2] {
                if cand >= len {
                    continue;
                }
                let mut c = best.clone();
                if let Op::Write { len: l, .. } = &mut c.ops[i] {
                    *l = cand;
                }
                tries += 1;
                if test(&c).is_some() {
                    best = c;
                    break;
                }
            }
        }
    }
    best
}

fn set_flavour(o: &mut Op, f: u8) {
    match o {
        Op::OpenVolume { fl, .. }
        | Op::CloseVolume { fl, .. }
        | Op::OpenRoot { fl, .. }
        | Op::OpenDir { fl, .. }
        | Op::CloseDir { fl, .. }
        | Op::Find { fl, .. }
        | Op::Iterate { fl, .. }
        | Op::OpenFile { fl, .. }
        | Op::CloseFile { fl, .. }
        | Op::Flush { fl, .. }
        | Op::Read { fl, .. }
        | Op::Write { fl, .. }
        | Op::SeekStart { fl, .. }
        | Op::SeekCur { fl, .. }
        | Op::SeekEnd { fl, .. }
        | Op::Query { fl, .. }
        | Op::Delete { fl, .. }
        | Op::MkDir { fl, .. } => *fl = f,
        _ => {}
    }
}

pub fn fs_rule(prop: &str) -> String {
    let nt = match prop {
        "C01" => "at least one non-empty read and one non-empty write were executed and judged",
        "C06" => "at least one directory listing was compared with the independent reader",
        "C07" | "C08" => "at least three API calls were judged",
        _ => "at least one mutating operation (create, write, truncate, flush of a written file, delete, mkdir) succeeded",
    };
    let huge = if prop == "C01" {
        "; one case in 64 is a huge-file history instead (probe huge_cases): a pre-existing file of 2 GiB - 1400 KiB .. 4 GiB - 1 bytes (sizes at and around 2^31 and the 4 GiB - 1 limit) on a FAT32 volume with 16/32/64 KiB clusters, chain in 1..5 shuffled runs (one boundary at the 2 GiB cluster), seeks from start / current (incl. i32::MIN / MAX and deltas across 2^31) / end, reads and writes across block, cluster and 2^31 boundaries and across the size limit, re-opens; the model is the formatted medium plus an overlay of written blocks, and a small neighbour file must never change"
    } else if prop == "C07" {
        "; one case in 64 is a huge-file case instead (probe two_directory_entries_4_gib_apart): a sub-directory whose first block lies 2^23 blocks behind the root directory's holds an empty file in the slot that an open file of the root occupies there; that file must open and (on writable cases) delete although its entry lies exactly 4 GiB behind an open file's"
    } else if prop == "C05" {
        "; one case in 256 is a huge-file case instead (probe huge_file_deleted): a file of 32768 .. 262144 clusters is closed and deleted; afterwards only the root directory and the small neighbour file may own clusters"
    } else if prop == "C04" {
        "; one case in 16 goes to the mount engine instead (probe wrote_after_mounting_with_a_damaged_information_sector): a FAT32 medium whose information sector or BPB_FSInfo holds a boundary value or random bytes; if the library mounts it, creating and writing a small file may write only FAT blocks, the root directory, clusters that were free and the formatter's information sector"
    } else {
        ""
    };
    format!("one case = one simulated history: device layout, geometry, pre-populated tree, limit configuration, clock schedule and operation list all drawn from the run's PRNG (profile '{}'); executed against the real library on SimDisk/SimClock in lock-step with the reference model; non-trivial = {}; distinct = distinct hash of the full event log (operation, result class, device calls, bytes changed){}", prop, nt, huge)
}

pub fn fs_components() -> Value {
    json!({
        "real": ["VolumeManager", "FatVolume and all of src/fat", "src/filesystem (handles, files, directories, names, timestamps)", "BlockCache", "RAII wrappers Volume/Directory/File", "embedded-io Read/Write/Seek adapters"],
        "stub": ["block device (SimDisk)", "clock (SimClock)"],
        "trusted": ["independent formatter mkfs.rs", "independent reader/fsck fatspec.rs", "reference model (world.rs, exec*.rs)"]
    })
}
