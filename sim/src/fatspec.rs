//! Independent FAT16/FAT32 reader and checker, written from Microsoft's FAT
//! specification (fatgen103). Shares no code with /repo and never calls it.
//! Trusted base of the oracles.

use crate::clock::Cal;
use crate::disk::Image;
use std::collections::BTreeMap;

#[derive(Clone, Debug, PartialEq, Eq)]
pub struct Geom {
    pub part_lba: u32,
    pub part_blocks: u32,
    pub fat32: bool,
    pub spc: u32,
    pub reserved: u32,
    pub num_fats: u32,
    pub fat_size: u32,
    pub root_entries: u32,
    pub root_dir_sectors: u32,
    pub total: u32,
    /// absolute block numbers
    pub first_fat: u32,
    pub root_dir_start: u32,
    pub first_data: u32,
    pub clusters: u32,
    pub root_cluster: u32,
    pub fsinfo: u32,
    pub backup_boot: u32,
}

pub fn rd16(b: &[u8], o: usize) -> u16 {
    u16::from_le_bytes([b[o], b[o + 1]])
}
pub fn rd32(b: &[u8], o: usize) -> u32 {
    u32::from_le_bytes([b[o], b[o + 1], b[o + 2], b[o + 3]])
}

#[derive(Clone, Debug)]
pub struct PartEntry {
    pub status: u8,
    pub ptype: u8,
    pub lba: u32,
    pub blocks: u32,
}

pub fn read_mbr(img: &Image) -> Result<[PartEntry; 4], String> {
    let b = img.get(0);
    if rd16(&b, 510) != 0xAA55 {
        return Err("no MBR signature".into());
    }
    let mut out = Vec::new();
    for i in 0..4 {
        let e = &b[446 + 16 * i..446 + 16 * i + 16];
        out.push(PartEntry { status: e[0], ptype: e[4], lba: rd32(e, 8), blocks: rd32(e, 12) });
    }
    Ok([out[0].clone(), out[1].clone(), out[2].clone(), out[3].clone()])
}

impl Geom {
    /// Parse the boot sector of the partition starting at `part_lba`, exactly per fatgen103.
    pub fn parse(img: &Image, part_lba: u32, part_blocks: u32) -> Result<Geom, String> {
        let b = img.get(part_lba);
        if rd16(&b, 510) != 0xAA55 {
            return Err("no boot signature".into());
        }
        let bps = rd16(&b, 11) as u32;
        if bps != 512 {
            return Err(format!("bytes/sector {}", bps));
        }
        let spc = b[13] as u32;
        if spc == 0 || !spc.is_power_of_two() {
            return Err(format!("sectors/cluster {}", spc));
        }
        let reserved = rd16(&b, 14) as u32;
        let num_fats = b[16] as u32;
        let root_entries = rd16(&b, 17) as u32;
        let tot16 = rd16(&b, 19) as u32;
        let fatsz16 = rd16(&b, 22) as u32;
        let tot32 = rd32(&b, 32);
        let fatsz32 = rd32(&b, 36);
        let fat_size = if fatsz16 != 0 { fatsz16 } else { fatsz32 };
        let total = if tot16 != 0 { tot16 } else { tot32 };
        if reserved == 0 || num_fats == 0 || fat_size == 0 {
            return Err("zero field".into());
        }
        let root_dir_sectors = (root_entries * 32 + 511) / 512;
        let meta = reserved as u64 + num_fats as u64 * fat_size as u64 + root_dir_sectors as u64;
        if meta >= total as u64 {
            return Err("metadata larger than volume".into());
        }
        let data_sec = total - meta as u32;
        let clusters = data_sec / spc;
        if clusters < 4085 {
            return Err("FAT12".into());
        }
        let fat32 = clusters >= 65525;
        let first_fat = part_lba + reserved;
        let root_dir_start = first_fat + num_fats * fat_size;
        let first_data = root_dir_start + root_dir_sectors;
        let (root_cluster, fsinfo, backup_boot) = if fat32 {
            (rd32(&b, 44), part_lba + rd16(&b, 48) as u32, rd16(&b, 50) as u32)
        } else {
            (0, 0, 0)
        };
        // the FAT must be able to hold all entries
        let need = ((clusters as u64 + 2) * if fat32 { 4 } else { 2 } + 511) / 512;
        if (fat_size as u64) < need {
            return Err("FAT too small".into());
        }
        Ok(Geom {
            part_lba,
            part_blocks,
            fat32,
            spc,
            reserved,
            num_fats,
            fat_size,
            root_entries,
            root_dir_sectors,
            total,
            first_fat,
            root_dir_start,
            first_data,
            clusters,
            root_cluster,
            fsinfo,
            backup_boot,
        })
    }
    pub fn cluster_bytes(&self) -> u32 {
        self.spc * 512
    }
    pub fn cluster_block(&self, c: u32) -> u32 {
        self.first_data + (c - 2) * self.spc
    }
    /// first block after the last cluster
    pub fn end_block(&self) -> u32 {
        self.first_data + self.clusters * self.spc
    }
    pub fn valid_cluster(&self, c: u32) -> bool {
        c >= 2 && c < self.clusters + 2
    }
    pub fn entry_bytes(&self) -> u32 {
        if self.fat32 {
            4
        } else {
            2
        }
    }
    /// (absolute block, byte offset) of FAT entry `c` in FAT copy `copy`
    pub fn fat_loc(&self, copy: u32, c: u32) -> (u32, usize) {
        let off = c * self.entry_bytes();
        (self.first_fat + copy * self.fat_size + off / 512, (off % 512) as usize)
    }
    /// which cluster does data block `blk` belong to (None if outside the data area proper)
    pub fn block_cluster(&self, blk: u32) -> Option<u32> {
        if blk >= self.first_data && blk < self.end_block() {
            Some((blk - self.first_data) / self.spc + 2)
        } else {
            None
        }
    }
}

#[derive(Clone, Copy, Debug, PartialEq, Eq)]
pub enum FatVal {
    Free,
    Next(u32),
    Bad,
    Eoc,
    Reserved(u32),
}

#[derive(Clone)]
pub struct FatView {
    pub fat32: bool,
    /// raw entries (FAT32: including the reserved high nibble)
    pub raw: Vec<u32>,
}

impl FatView {
    pub fn load(img: &Image, g: &Geom, copy: u32) -> FatView {
        let n = (g.clusters + 2) as usize;
        let mut raw = Vec::with_capacity(n);
        let eb = g.entry_bytes() as usize;
        let per = 512 / eb;
        let mut c = 0usize;
        let mut blk = g.first_fat + copy * g.fat_size;
        while c < n {
            let b = img.get(blk);
            for i in 0..per {
                if c >= n {
                    break;
                }
                raw.push(if g.fat32 { rd32(&b, i * 4) } else { rd16(&b, i * 2) as u32 });
                c += 1;
            }
            blk += 1;
        }
        FatView { fat32: g.fat32, raw }
    }
    pub fn val(&self, c: u32) -> FatVal {
        let v = self.raw[c as usize];
        let v = if self.fat32 { v & 0x0FFF_FFFF } else { v };
        let (bad, eoc_lo, res_lo) = if self.fat32 { (0x0FFF_FFF7, 0x0FFF_FFF8, 0x0FFF_FFF0) } else { (0xFFF7, 0xFFF8, 0xFFF0) };
        // fatgen103: a value is a cluster number if it is at most the last cluster of the
        // volume (on the largest FAT16 volumes that reaches 0xFFF5); only values above that
        // and below the bad-cluster mark are reserved
        if v == 0 {
            FatVal::Free
        } else if v == 1 {
            FatVal::Reserved(v)
        } else if v < self.n() {
            FatVal::Next(v)
        } else if v == bad {
            FatVal::Bad
        } else if v >= eoc_lo {
            FatVal::Eoc
        } else if v >= res_lo {
            FatVal::Reserved(v)
        } else {
            FatVal::Next(v)
        }
    }
    pub fn n(&self) -> u32 {
        self.raw.len() as u32
    }
    pub fn free_count(&self) -> u32 {
        (2..self.n()).filter(|&c| self.val(c) == FatVal::Free).count() as u32
    }
    /// neither free nor bad
    pub fn used_count(&self) -> u32 {
        (2..self.n()).filter(|&c| !matches!(self.val(c), FatVal::Free | FatVal::Bad)).count() as u32
    }
    /// Re-read the entries stored in absolute FAT block `blk` of copy 0.
    pub fn refresh_block(&mut self, img: &Image, g: &Geom, blk: u32) {
        if blk < g.first_fat || blk >= g.first_fat + g.fat_size {
            return;
        }
        let eb = g.entry_bytes() as usize;
        let per = 512 / eb;
        let first = (blk - g.first_fat) as usize * per;
        let b = img.get(blk);
        for i in 0..per {
            let c = first + i;
            if c >= self.raw.len() {
                break;
            }
            self.raw[c] = if g.fat32 { rd32(&b, i * 4) } else { rd16(&b, i * 2) as u32 };
        }
    }
}

#[derive(Clone, Debug, PartialEq, Eq)]
pub enum ChainErr {
    StartOutOfRange(u32),
    IntoFree(u32),
    IntoBad(u32),
    IntoReserved(u32),
    OutOfRange(u32, u32),
    Cycle(u32),
}

/// Walk a chain. Returns the clusters visited and, if the chain is broken, why.
pub fn chain(fat: &FatView, g: &Geom, start: u32) -> (Vec<u32>, Option<ChainErr>) {
    let mut out = Vec::new();
    if !g.valid_cluster(start) {
        return (out, Some(ChainErr::StartOutOfRange(start)));
    }
    let mut c = start;
    let limit = g.clusters as usize + 1;
    loop {
        // state of the cluster we are standing on
        match fat.val(c) {
            FatVal::Free => return (out, Some(ChainErr::IntoFree(c))),
            FatVal::Bad => return (out, Some(ChainErr::IntoBad(c))),
            FatVal::Reserved(_) => return (out, Some(ChainErr::IntoReserved(c))),
            FatVal::Eoc => {
                out.push(c);
                return (out, None);
            }
            FatVal::Next(n) => {
                out.push(c);
                if !g.valid_cluster(n) {
                    return (out, Some(ChainErr::OutOfRange(c, n)));
                }
                if out.len() > limit {
                    return (out, Some(ChainErr::Cycle(c)));
                }
                c = n;
            }
        }
    }
}

#[derive(Clone, Copy, Debug, PartialEq, Eq, PartialOrd, Ord)]
pub enum DirLoc {
    Fat16Root,
    Cluster(u32),
}

#[derive(Clone, Debug)]
pub struct Slot {
    pub block: u32,
    pub off: u16,
    pub raw: [u8; 32],
}

/// All 32-byte slots of a directory in on-disk order (through the whole chain /
/// the whole fixed root region), plus the chain and any chain error.
pub fn dir_slots(img: &Image, g: &Geom, fat: &FatView, loc: DirLoc) -> (Vec<Slot>, Vec<u32>, Option<ChainErr>) {
    let mut slots = Vec::new();
    match loc {
        DirLoc::Fat16Root => {
            // The root region is RootDirSectors whole sectors (fatgen103 rounds up); an entry count that is
            // not a multiple of 16 leaves a few slots in the last sector whose status the specification does
            // not settle. They are taken as part of the directory (sector-granular reading).
            let mut left = g.root_dir_sectors * 16;
            for i in 0..g.root_dir_sectors {
                let blk = g.root_dir_start + i;
                let b = img.get(blk);
                for s in 0..16u32 {
                    if left == 0 {
                        break;
                    }
                    let mut raw = [0u8; 32];
                    raw.copy_from_slice(&b[(s * 32) as usize..(s * 32 + 32) as usize]);
                    slots.push(Slot { block: blk, off: (s * 32) as u16, raw });
                    left -= 1;
                }
            }
            (slots, Vec::new(), None)
        }
        DirLoc::Cluster(c0) => {
            let (ch, err) = chain(fat, g, c0);
            for &c in &ch {
                for i in 0..g.spc {
                    let blk = g.cluster_block(c) + i;
                    let b = img.get(blk);
                    for s in 0..16usize {
                        let mut raw = [0u8; 32];
                        raw.copy_from_slice(&b[s * 32..s * 32 + 32]);
                        slots.push(Slot { block: blk, off: (s * 32) as u16, raw });
                    }
                }
            }
            (slots, ch, err)
        }
    }
}

pub const ATTR_RO: u8 = 0x01;
pub const ATTR_HID: u8 = 0x02;
pub const ATTR_SYS: u8 = 0x04;
pub const ATTR_VOL: u8 = 0x08;
pub const ATTR_DIR: u8 = 0x10;
pub const ATTR_ARC: u8 = 0x20;
pub const ATTR_LFN: u8 = 0x0F;

pub fn slot_is_lfn(raw: &[u8; 32]) -> bool {
    (raw[11] & 0x3F) == ATTR_LFN
}

pub fn sfn_checksum(name: &[u8]) -> u8 {
    let mut s = 0u8;
    for &b in &name[..11] {
        s = (if s & 1 != 0 { 0x80u8 } else { 0 }).wrapping_add(s >> 1).wrapping_add(b);
    }
    s
}

pub fn lfn_units(raw: &[u8; 32]) -> [u16; 13] {
    let mut u = [0u16; 13];
    let offs = [1usize, 3, 5, 7, 9, 14, 16, 18, 20, 22, 24, 28, 30];
    for (i, &o) in offs.iter().enumerate() {
        u[i] = rd16(raw, o);
    }
    u
}

/// What the reference long-name state machine says about a short entry.
#[derive(Clone, Debug, PartialEq, Eq)]
pub enum LfnVerdict {
    /// no long name may be reported
    None,
    /// a complete, correctly ordered, checksum-matching run precedes the entry: these are
    /// the fragments in name order (fragment 1 first), each cut at its first 0x0000
    Due(Vec<Vec<u16>>),
    /// the statement does not settle this case (e.g. 20-fragment runs, run separated by deleted slots)
    Either(Vec<Vec<u16>>),
}

#[derive(Clone, Debug)]
pub struct Ent {
    pub name: [u8; 11],
    pub attr: u8,
    pub ctime: Cal,
    pub mtime: Cal,
    pub cluster: u32,
    pub size: u32,
    pub block: u32,
    pub off: u16,
    pub slot_idx: usize,
    pub raw: [u8; 32],
    pub lfn: LfnVerdict,
}

impl Ent {
    pub fn is_dir(&self) -> bool {
        self.attr & ATTR_DIR != 0
    }
    pub fn is_vol(&self) -> bool {
        self.attr & ATTR_VOL != 0
    }
    pub fn is_dot(&self) -> bool {
        &self.name == b".          " || &self.name == b"..         "
    }
}

/// Index of the first end-of-directory marker, or slots.len().
pub fn end_index(slots: &[Slot]) -> usize {
    slots.iter().position(|s| s.raw[0] == 0).unwrap_or(slots.len())
}

/// Live non-LFN entries in on-disk order, up to the end marker, each with the
/// reference verdict about its long name.
pub fn live_entries(slots: &[Slot], fat32: bool) -> Vec<Ent> {
    let end = end_index(slots);
    let mut out = Vec::new();
    // reference LFN state: fragments collected so far in disk order
    #[derive(Clone)]
    struct Run {
        csum: u8,
        next: u8,
        frags: Vec<[u16; 13]>, // disk order: highest ordinal first
        total: u8,
        interrupted_by_deleted: bool,
        mixed_csum: bool,
    }
    let mut run: Option<Run> = None;
    for (i, s) in slots[..end].iter().enumerate() {
        let raw = &s.raw;
        if raw[0] == 0xE5 {
            // a deleted slot between a run and its short entry: the association is not settled
            if let Some(r) = run.as_mut() {
                r.interrupted_by_deleted = true;
            }
            continue;
        }
        if slot_is_lfn(raw) {
            // bit 0x20 of the ordinal byte is not defined by the specification: a run that carries it is
            // judged either way
            let ord = raw[0] & 0x1F;
            let odd = raw[0] & 0x20 != 0;
            let start = raw[0] & 0x40 != 0;
            let csum = raw[13];
            if start {
                if (1..=20).contains(&ord) {
                    run = Some(Run { csum, next: ord - 1, frags: vec![lfn_units(raw)], total: ord, interrupted_by_deleted: false, mixed_csum: odd });
                } else {
                    run = None;
                }
            } else {
                match run.as_mut() {
                    // (a deleted slot inside a run leaves the association unsettled, see `interrupted_by_deleted`)
                    Some(r) if r.next >= 1 && ord == r.next => {
                        // fragments that disagree about the checksum: the run's checksum is not well defined,
                        // the statement does not settle whether a name is reported
                        if csum != r.csum || odd {
                            r.mixed_csum = true;
                        }
                        r.frags.push(lfn_units(raw));
                        r.next -= 1;
                    }
                    _ => run = None,
                }
            }
            continue;
        }
        // a short entry (file, directory or volume label)
        let mut name = [0u8; 11];
        name.copy_from_slice(&raw[..11]);
        let verdict = match run.take() {
            Some(r) if r.next == 0 && r.csum == sfn_checksum(&name) => {
                let frags: Vec<Vec<u16>> = r
                    .frags
                    .iter()
                    .rev()
                    .map(|f| {
                        let n = f.iter().position(|&u| u == 0).unwrap_or(13);
                        f[..n].to_vec()
                    })
                    .collect();
                if r.interrupted_by_deleted || r.total >= 20 || r.mixed_csum {
                    LfnVerdict::Either(frags)
                } else {
                    LfnVerdict::Due(frags)
                }
            }
            _ => LfnVerdict::None,
        };
        let cl = if fat32 { (rd16(raw, 20) as u32) << 16 | rd16(raw, 26) as u32 } else { rd16(raw, 26) as u32 };
        // fatgen103: a stored first byte 0x05 stands for the character 0xE5 (which, stored as such, would mark the
        // slot deleted); the long-name checksum above is over the bytes as stored
        if name[0] == 0x05 {
            name[0] = 0xE5;
        }
        out.push(Ent {
            name,
            attr: raw[11],
            ctime: Cal::from_fat(rd16(raw, 16), rd16(raw, 14)),
            mtime: Cal::from_fat(rd16(raw, 24), rd16(raw, 22)),
            cluster: cl,
            size: rd32(raw, 28),
            block: s.block,
            off: s.off,
            slot_idx: i,
            raw: *raw,
            lfn: verdict,
        });
    }
    out
}

pub fn read_chain_bytes(img: &Image, g: &Geom, ch: &[u32], size: u32) -> Vec<u8> {
    let mut out = Vec::with_capacity(size as usize);
    let mut left = size as usize;
    'o: for &c in ch {
        for i in 0..g.spc {
            if left == 0 {
                break 'o;
            }
            let b = img.get(g.cluster_block(c) + i);
            let n = left.min(512);
            out.extend_from_slice(&b[..n]);
            left -= n;
        }
    }
    out
}

#[derive(Clone, Debug)]
pub struct TDir {
    pub loc: DirLoc,
    pub parent: Option<usize>,
    /// path from root, each component the raw 11 bytes
    pub path: Vec<[u8; 11]>,
    pub chain: Vec<u32>,
    pub slots: Vec<Slot>,
    pub ents: Vec<Ent>,
}

#[derive(Clone, Debug)]
pub struct TFile {
    pub dir: usize,
    pub ent_idx: usize,
    pub chain: Vec<u32>,
}

#[derive(Clone, Debug, PartialEq, Eq)]
pub struct Problem {
    pub kind: &'static str,
    pub detail: String,
}

#[derive(Clone, Debug)]
pub struct Tree {
    pub dirs: Vec<TDir>,
    pub files: Vec<TFile>,
    pub problems: Vec<Problem>,
    /// owner bitmap: clusters reachable from live entries
    pub reachable: Vec<bool>,
    pub reachable_count: u32,
}

#[derive(Clone, Default)]
pub struct FsckOpts {
    /// crash mode (C10): a size that does not match the chain is permitted residue
    pub crash: bool,
    /// sizes of still-open files not yet written back, keyed by (entry block, entry offset)
    pub pending: BTreeMap<(u32, u16), u32>,
}

fn problem(v: &mut Vec<Problem>, kind: &'static str, detail: String) {
    if v.len() < 64 {
        v.push(Problem { kind, detail });
    }
}

pub fn name_str(n: &[u8; 11]) -> String {
    let mut s = String::new();
    for (i, &b) in n.iter().enumerate() {
        if i == 8 {
            s.push('.');
        }
        if b == b' ' {
            continue;
        }
        if (0x21..0x7f).contains(&b) {
            s.push(b as char);
        } else {
            s.push_str(&format!("\\x{:02x}", b));
        }
    }
    if s.ends_with('.') {
        s.pop();
    }
    s
}

/// Walk the whole volume from the root; collect structure and every structural problem.
pub fn walk(img: &Image, g: &Geom, fat: &FatView, opts: &FsckOpts) -> Tree {
    let mut t = Tree { dirs: Vec::new(), files: Vec::new(), problems: Vec::new(), reachable: vec![false; (g.clusters + 2) as usize], reachable_count: 0 };
    let root_loc = if g.fat32 { DirLoc::Cluster(g.root_cluster) } else { DirLoc::Fat16Root };
    let mut queue: Vec<(DirLoc, Option<usize>, Vec<[u8; 11]>)> = vec![(root_loc, None, Vec::new())];
    let mut qi = 0;
    while qi < queue.len() {
        let (loc, parent, path) = queue[qi].clone();
        qi += 1;
        if t.dirs.len() > 4096 {
            problem(&mut t.problems, "too-many-dirs", String::new());
            break;
        }
        let (slots, ch, err) = dir_slots(img, g, fat, loc);
        let pstr = path.iter().map(name_str).collect::<Vec<_>>().join("/");
        if let Some(e) = err {
            problem(&mut t.problems, "dir-chain", format!("/{}: {:?}", pstr, e));
        }
        let mut crossed = false;
        for &c in &ch {
            if t.reachable[c as usize] {
                problem(&mut t.problems, "cross-link", format!("/{}: cluster {} already owned", pstr, c));
                crossed = true;
            } else {
                t.reachable[c as usize] = true;
                t.reachable_count += 1;
            }
        }
        if crossed {
            // do not descend into a directory whose clusters belong to something else
            continue;
        }
        let ents = live_entries(&slots, g.fat32);
        let end = end_index(&slots);
        for (i, s) in slots.iter().enumerate().skip(end) {
            if s.raw[0] != 0 && s.raw[0] != 0xE5 {
                problem(&mut t.problems, "entry-after-end", format!("/{}: slot {} after end marker at {}", pstr, i, end));
                break;
            }
        }
        // unique names among live short entries
        {
            let mut seen: BTreeMap<[u8; 11], usize> = BTreeMap::new();
            for e in &ents {
                if e.is_vol() && !e.is_dir() {
                    continue;
                }
                if let Some(_) = seen.insert(e.name, e.slot_idx) {
                    problem(&mut t.problems, "duplicate-name", format!("/{}: {}", pstr, name_str(&e.name)));
                }
            }
        }
        let me = t.dirs.len();
        // dot entries of a sub-directory
        if parent.is_some() {
            let self_c = match loc {
                DirLoc::Cluster(c) => c,
                DirLoc::Fat16Root => 0,
            };
            let parent_c = match t.dirs[parent.unwrap()].loc {
                DirLoc::Cluster(c) if t.dirs[parent.unwrap()].parent.is_some() => c,
                _ => 0,
            };
            let d0 = slots.get(0);
            let d1 = slots.get(1);
            let ok0 = d0.map_or(false, |s| &s.raw[..11] == b".          " && s.raw[11] & ATTR_DIR != 0 && slot_cluster(&s.raw, g.fat32) == self_c);
            let ok1 = d1.map_or(false, |s| &s.raw[..11] == b"..         " && s.raw[11] & ATTR_DIR != 0 && slot_cluster(&s.raw, g.fat32) == parent_c);
            if !ok0 {
                problem(&mut t.problems, "bad-dot", format!("/{}", pstr));
            }
            if !ok1 {
                problem(&mut t.problems, "bad-dotdot", format!("/{} (expected parent cluster {})", pstr, parent_c));
            }
        }
        for (ei, e) in ents.iter().enumerate() {
            if e.is_vol() {
                continue;
            }
            if e.is_dir() {
                if e.is_dot() {
                    continue;
                }
                if !g.valid_cluster(e.cluster) {
                    problem(&mut t.problems, "subdir-no-cluster", format!("/{}/{}: cluster {}", pstr, name_str(&e.name), e.cluster));
                    continue;
                }
                if path.len() > 32 {
                    problem(&mut t.problems, "too-deep", format!("/{}", pstr));
                    continue;
                }
                let mut p = path.clone();
                p.push(e.name);
                queue.push((DirLoc::Cluster(e.cluster), Some(me), p));
            } else {
                let pend = opts.pending.get(&(e.block, e.off)).copied();
                // an open file whose entry does not name a cluster yet keeps its chain in memory:
                // only the recorded size is judged here
                let size = if e.cluster == 0 { e.size } else { pend.unwrap_or(e.size).max(e.size) };
                if e.cluster == 0 {
                    if size != 0 && !opts.crash {
                        problem(&mut t.problems, "size-without-chain", format!("/{}/{}: size {}", pstr, name_str(&e.name), size));
                    }
                    t.files.push(TFile { dir: me, ent_idx: ei, chain: Vec::new() });
                    continue;
                }
                let (fc, err) = chain(fat, g, e.cluster);
                if let Some(er) = err {
                    problem(&mut t.problems, "file-chain", format!("/{}/{}: {:?}", pstr, name_str(&e.name), er));
                }
                for &c in &fc {
                    if t.reachable[c as usize] {
                        problem(&mut t.problems, "cross-link", format!("/{}/{}: cluster {} already owned", pstr, name_str(&e.name), c));
                    } else {
                        t.reachable[c as usize] = true;
                        t.reachable_count += 1;
                    }
                }
                if !opts.crash && (fc.len() as u64) * (g.cluster_bytes() as u64) < size as u64 {
                    problem(&mut t.problems, "chain-too-short", format!("/{}/{}: {} clusters for {} bytes", pstr, name_str(&e.name), fc.len(), size));
                }
                t.files.push(TFile { dir: me, ent_idx: ei, chain: fc });
            }
        }
        t.dirs.push(TDir { loc, parent, path, chain: ch, slots, ents });
    }
    t
}

pub fn slot_cluster(raw: &[u8; 32], fat32: bool) -> u32 {
    if fat32 {
        (rd16(raw, 20) as u32) << 16 | rd16(raw, 26) as u32
    } else {
        rd16(raw, 26) as u32
    }
}

impl Tree {
    pub fn find_dir(&self, path: &[[u8; 11]]) -> Option<usize> {
        self.dirs.iter().position(|d| d.path == path)
    }
    pub fn find_ent(&self, dir: usize, name: &[u8; 11]) -> Option<&Ent> {
        self.dirs[dir].ents.iter().find(|e| &e.name == name && !(e.is_vol() && !e.is_dir()))
    }
    pub fn file_chain(&self, dir: usize, name: &[u8; 11]) -> Option<&Vec<u32>> {
        self.files.iter().find(|f| f.dir == dir && &self.dirs[dir].ents[f.ent_idx].name == name).map(|f| &f.chain)
    }
}

/// Lost clusters: marked in use (neither free nor bad) but not reachable.
pub fn lost_clusters(fat: &FatView, t: &Tree) -> Vec<u32> {
    (2..fat.n()).filter(|&c| !matches!(fat.val(c), FatVal::Free | FatVal::Bad) && !t.reachable[c as usize]).collect()
}

/// Decode a sequence of UTF-16 units the way the statement of C17 prescribes: lossy.
pub fn lfn_expected_string(frags: &[Vec<u16>]) -> String {
    let all: Vec<u16> = frags.iter().flat_map(|f| f.iter().copied()).collect();
    String::from_utf16_lossy(&all)
}
