//! Operations of a scenario. Handles are symbolic slots so that every
//! sub-sequence of a scenario stays executable (needed for minimisation).

use crate::mkfs::DevSpec;
use serde::{Deserialize, Serialize};

#[derive(Serialize, Deserialize, Clone, Debug, PartialEq)]
pub enum Op {
    OpenVolume { vs: u8, idx: u8, fl: u8 },
    CloseVolume { vs: u8, fl: u8 },
    OpenRoot { vs: u8, ds: u8, fl: u8 },
    OpenDir { ds: u8, name: String, nds: u8, fl: u8 },
    ChangeDir { ds: u8, name: String },
    CloseDir { ds: u8, fl: u8 },
    Find { ds: u8, name: String, fl: u8 },
    Iterate { ds: u8, fl: u8, lfn: Option<u16>, reent: Option<u8> },
    OpenFile { ds: u8, name: String, mode: u8, fs: u8, fl: u8 },
    CloseFile { fs: u8, fl: u8 },
    Flush { fs: u8, fl: u8 },
    Read { fs: u8, len: u32, fl: u8 },
    Write { fs: u8, len: u32, seed: u32, fl: u8 },
    SeekStart { fs: u8, off: u64, fl: u8 },
    SeekCur { fs: u8, delta: i64, fl: u8 },
    SeekEnd { fs: u8, back: u64, fl: u8 },
    Query { fs: u8, fl: u8 },
    Delete { ds: u8, name: String, fl: u8 },
    MkDir { ds: u8, name: String, fl: u8 },
    HasOpen,
    /// n times open_root_dir + close_dir: many handle generations while whatever is open stays open
    Churn { vs: u8, n: u32 },
    Label { vs: u8 },
    StaleVol { vs: u8, m: u8 },
    StaleDir { ds: u8, m: u8 },
    StaleFile { fs: u8, m: u8 },
    Clock { secs: u64 },
    Checkpoint,
}

impl Op {
    pub fn kind(&self) -> &'static str {
        match self {
            Op::OpenVolume { .. } => "open_volume",
            Op::CloseVolume { .. } => "close_volume",
            Op::OpenRoot { .. } => "open_root_dir",
            Op::OpenDir { .. } => "open_dir",
            Op::ChangeDir { .. } => "change_dir",
            Op::CloseDir { .. } => "close_dir",
            Op::Find { .. } => "find_directory_entry",
            Op::Iterate { .. } => "iterate_dir",
            Op::OpenFile { .. } => "open_file_in_dir",
            Op::CloseFile { .. } => "close_file",
            Op::Flush { .. } => "flush_file",
            Op::Read { .. } => "read",
            Op::Write { .. } => "write",
            Op::SeekStart { .. } => "seek_from_start",
            Op::SeekCur { .. } => "seek_from_current",
            Op::SeekEnd { .. } => "seek_from_end",
            Op::Query { .. } => "query",
            Op::Delete { .. } => "delete_file_in_dir",
            Op::MkDir { .. } => "make_dir_in_dir",
            Op::HasOpen => "has_open_handles",
            Op::Churn { .. } => "handle_churn",
            Op::Label { .. } => "get_root_volume_label",
            Op::StaleVol { .. } => "stale_volume",
            Op::StaleDir { .. } => "stale_dir",
            Op::StaleFile { .. } => "stale_file",
            Op::Clock { .. } => "clock",
            Op::Checkpoint => "checkpoint",
        }
    }
    pub fn is_api_call(&self) -> bool {
        !matches!(self, Op::Clock { .. } | Op::Checkpoint)
    }
}

pub const MODES: [embedded_sdmmc::Mode; 6] = [
    embedded_sdmmc::Mode::ReadOnly,
    embedded_sdmmc::Mode::ReadWriteAppend,
    embedded_sdmmc::Mode::ReadWriteTruncate,
    embedded_sdmmc::Mode::ReadWriteCreate,
    embedded_sdmmc::Mode::ReadWriteCreateOrTruncate,
    embedded_sdmmc::Mode::ReadWriteCreateOrAppend,
];
pub const MODE_NAMES: [&str; 6] = ["ReadOnly", "ReadWriteAppend", "ReadWriteTruncate", "ReadWriteCreate", "ReadWriteCreateOrTruncate", "ReadWriteCreateOrAppend"];

#[derive(Serialize, Deserialize, Clone, Debug, PartialEq)]
pub struct Fault {
    /// device-call index at which the fault fires
    pub at: u64,
    pub applied: bool,
}

#[derive(Serialize, Deserialize, Clone, Debug, PartialEq)]
pub struct Scenario {
    pub dev: DevSpec,
    pub limits: (usize, usize, usize),
    pub id_offset: u32,
    pub clock0: u64,
    pub ops: Vec<Op>,
    #[serde(default)]
    pub faults: Vec<Fault>,
    #[serde(default)]
    pub dead_from: Option<u64>,
}
