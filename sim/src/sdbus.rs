//! SimSpi / SimDelay: the simulated SPI bus and delay provider behind the embedded-hal seams.

use crate::sdcard_model::SimCard;
use embedded_hal::spi::{ErrorKind, ErrorType, Operation, SpiDevice};
use std::cell::{Cell, RefCell};
use std::rc::Rc;

#[derive(Debug, Clone, Copy)]
pub struct BusError;
impl embedded_hal::spi::Error for BusError {
    fn kind(&self) -> ErrorKind {
        ErrorKind::Other
    }
}

pub struct BusState {
    pub transactions: u64,
    /// fail this transaction index (once)
    pub fail_at: Option<u64>,
    pub failed: u64,
    /// abort the driver call when more than this many bytes have been exchanged (hang detector)
    pub byte_cap: u64,
}

/// Panic payload: byte budget exceeded.
pub struct BusHang;

pub struct SimSpi {
    pub card: Rc<RefCell<SimCard>>,
    pub bus: Rc<RefCell<BusState>>,
}

impl ErrorType for SimSpi {
    type Error = BusError;
}

impl SimSpi {
    fn xfer(&self, b: u8) -> u8 {
        let mut c = self.card.borrow_mut();
        if c.bytes >= self.bus.borrow().byte_cap {
            drop(c);
            std::panic::panic_any(BusHang);
        }
        c.exchange(b)
    }
}

impl SpiDevice<u8> for SimSpi {
    fn transaction(&mut self, operations: &mut [Operation<'_, u8>]) -> Result<(), BusError> {
        {
            let mut b = self.bus.borrow_mut();
            let idx = b.transactions;
            b.transactions += 1;
            if b.fail_at == Some(idx) {
                b.fail_at = None;
                b.failed += 1;
                self.card.borrow_mut().suspend_judgement = true;
                return Err(BusError);
            }
        }
        for op in operations.iter_mut() {
            match op {
                Operation::Read(buf) => {
                    for x in buf.iter_mut() {
                        *x = self.xfer(0xFF);
                    }
                }
                Operation::Write(buf) => {
                    for &x in buf.iter() {
                        self.xfer(x);
                    }
                }
                Operation::Transfer(rd, wr) => {
                    let n = rd.len().max(wr.len());
                    for i in 0..n {
                        let o = wr.get(i).copied().unwrap_or(0xFF);
                        let r = self.xfer(o);
                        if let Some(x) = rd.get_mut(i) {
                            *x = r;
                        }
                    }
                }
                Operation::TransferInPlace(buf) => {
                    for x in buf.iter_mut() {
                        *x = self.xfer(*x);
                    }
                }
                Operation::DelayNs(_) => {}
            }
        }
        Ok(())
    }
}

pub struct SimDelay {
    pub ns: Rc<Cell<u64>>,
}

impl embedded_hal::delay::DelayNs for SimDelay {
    fn delay_ns(&mut self, ns: u32) {
        self.ns.set(self.ns.get() + ns as u64);
    }
}
