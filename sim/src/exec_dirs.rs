//! Volume and directory operations.

use crate::exec::*;
use crate::fatspec::{self, DirLoc};
use crate::fs::Name;
use crate::world::*;
use embedded_sdmmc::DirEntry;

impl<'a> World<'a> {
    pub fn op_open_volume(&mut self, vs: u8, idx: u8, fl: u8) {
        let opk = "open_volume";
        if self.vslots.get(vs as usize).map_or(true, |s| s.cur.is_some()) {
            return;
        }
        let mut errs: Vec<&'static str> = Vec::new();
        if self.open_vol_count() >= self.limits.2 {
            errs.push("TooManyOpenVolumes");
        }
        let target = self.vols.iter().position(|v| v.mbr_slot == idx);
        if idx >= 4 {
            errs.push("NoSuchVolume");
        } else if target.is_none() {
            errs.push("FormatError");
        }
        if let Some(t) = target {
            if self.vols[t].mounted {
                errs.push("VolumeAlreadyOpen");
            }
        }
        let r = got(self.call(|fs| fs.open_volume(idx as usize, fl)));
        let n = r.name();
        let ok = self.judge(opk, &format!("idx{}", idx.min(4)), n, "", errs.is_empty(), &errs);
        if ok {
            if let Got::Ok(h) = r {
                let t = target.unwrap();
                self.check_new_handle_pub(handle_num(&h), "volume");
                self.vslots[vs as usize].cur = Some((h, VH { vol: t }));
                let v = &mut self.vols[t];
                v.mounted = true;
                v.fat_changed_since_mount = false;
                v.min_free_since_mount = v.free;
                v.max_free_since_mount = v.free;
                if v.geom.fat32 {
                    let (c, hnt) = self.disk.with_image(|img| (img.u32_at(v.geom.fsinfo, 488), img.u32_at(v.geom.fsinfo, 492)));
                    v.info_at_mount = Some((c, hnt, v.free));
                    v.hint_named_free_at_mount = hnt >= 2 && hnt < v.geom.clusters + 2 && matches!(v.fat.val(hnt), fatspec::FatVal::Free);
                }
                self.probes.hit("volume_opened");
                if t > 0 {
                    self.probes.hit("second_volume_opened");
                }
            }
        }
        let a = Allow { read_only: true, ..Default::default() };
        self.finish(opk, &a, None);
    }

    pub fn check_new_handle_pub(&mut self, num: u64, kind: &'static str) {
        let mut clash = false;
        for s in &self.vslots {
            if let Some((h, _)) = &s.cur {
                clash |= handle_num(h) == num;
            }
        }
        for s in &self.dslots {
            if let Some((h, _)) = &s.cur {
                clash |= handle_num(h) == num;
            }
        }
        for s in &self.fslots {
            if let Some((h, _)) = &s.cur {
                clash |= handle_num(h) == num;
            }
        }
        if clash {
            self.violate("C08", "handle-not-distinct", kind, format!("new handle {:#x} equals an open handle", num));
        }
        if num < 16 {
            self.probes.hit("handle_counter_wrapped");
        }
    }

    /// Many handle generations in one go: every new handle must differ from everything that is open.
    pub fn op_churn(&mut self, vs: u8, n: u32) {
        let opk = "handle_churn";
        let (h, _) = match self.vslots.get(vs as usize).and_then(|s| s.cur.clone()) {
            Some(x) => x,
            None => return,
        };
        if self.open_dir_count() >= self.limits.0 {
            return;
        }
        let mut open: std::collections::BTreeSet<u64> = std::collections::BTreeSet::new();
        for s in &self.vslots {
            if let Some((x, _)) = &s.cur {
                open.insert(handle_num(x));
            }
        }
        for s in &self.dslots {
            if let Some((x, _)) = &s.cur {
                open.insert(handle_num(x));
            }
        }
        for s in &self.fslots {
            if let Some((x, _)) = &s.cur {
                open.insert(handle_num(x));
            }
        }
        let r = self.call(|fs| -> Result<(), (u32, String, bool)> {
            for i in 0..n {
                let d = fs.open_root_dir(h, 0).map_err(|e| (i, format!("open_root_dir: {}", crate::fs::err_name(&e)), false))?;
                if open.contains(&handle_num(&d)) {
                    let _ = fs.close_dir(d, 0);
                    return Err((i, format!("new handle {:#x} equals an open handle", handle_num(&d)), true));
                }
                fs.close_dir(d, 0).map_err(|e| (i, format!("close_dir: {}", crate::fs::err_name(&e)), false))?;
            }
            Ok(())
        });
        match r {
            Ok(Ok(())) => {
                self.ev("churn:ok");
                self.probes.add("handle_generations_churned", n as u64);
                if n >= 65536 {
                    self.probes.hit("churn_beyond_65536_generations");
                }
            }
            Ok(Err((i, what, clash))) => {
                self.ev("churn:err");
                if clash {
                    self.violate("C08", "handle-not-distinct", "churn", format!("after {} generations: {}", i, what));
                } else {
                    self.violate("C08", "result", "handle_churn:got=Err", format!("generation {}: {}", i, what));
                }
                self.abort("churn");
            }
            Err(p) => {
                self.violate("C08", "panic", opk, p.msg);
                self.abort("panic");
            }
        }
        let a = Allow { read_only: true, ..Default::default() };
        self.finish(opk, &a, None);
    }

    pub fn op_close_volume(&mut self, vs: u8, fl: u8) {
        let opk = "close_volume";
        let (h, vh) = match self.vslots.get(vs as usize).and_then(|s| s.cur.clone()) {
            Some(x) => x,
            None => return,
        };
        let in_use = self.dslots.iter().any(|s| s.cur.as_ref().map_or(false, |(_, d)| d.vol == vh.vol)) || self.fslots.iter().any(|s| s.cur.as_ref().map_or(false, |(_, f)| f.vol == vh.vol));
        // the drop flavour swallows the refusal; only use it when the close must succeed
        let fl = if (in_use || self.faulty) && fl == 2 { 1 } else { fl };
        let r = got(self.call(|fs| fs.close_volume(h, fl)));
        let n = r.name();
        let ok = self.judge(opk, if in_use { "in-use" } else { "idle" }, n, "", !in_use, if in_use { &["VolumeStillInUse"] } else { &[] });
        let mut a = Allow { vol: Some(vh.vol), may_write_info: true, ..Default::default() };
        if in_use {
            a.read_only = true;
        }
        if ok && !in_use {
            self.vslots[vs as usize].cur = None;
            self.vslots[vs as usize].dead = Some(h);
            self.vols[vh.vol].mounted = false;
            self.finish(opk, &a, None);
            self.monitor_c16_info(vh.vol, opk);
            self.vols[vh.vol].info_at_mount = None;
            self.probes.hit("volume_closed");
        } else {
            self.finish(opk, &a, None);
        }
    }

    pub fn op_open_root(&mut self, vs: u8, ds: u8, fl: u8) {
        let opk = "open_root_dir";
        if self.dslots.get(ds as usize).map_or(true, |s| s.cur.is_some()) {
            return;
        }
        let (h, vh) = match self.vslots.get(vs as usize).and_then(|s| s.cur.clone()) {
            Some(x) => x,
            None => return,
        };
        let full = self.open_dir_count() >= self.limits.0;
        let r = got(self.call(|fs| fs.open_root_dir(h, fl)));
        let n = r.name();
        let ok = self.judge(opk, if full { "full" } else { "" }, n, "", !full, if full { &["TooManyOpenDirs"] } else { &[] });
        if ok {
            if let Got::Ok(d) = r {
                self.check_new_handle_pub(handle_num(&d), "directory");
                self.dslots[ds as usize].cur = Some((d, DH { vol: vh.vol, dir: 0 }));
            }
        }
        let a = Allow { read_only: true, ..Default::default() };
        self.finish(opk, &a, None);
    }

    /// Expected result of resolving `name` as a sub-directory of model dir (vol, dir).
    fn resolve_dir(&self, vol: usize, dir: u32, name: &str) -> Result<u32, &'static str> {
        let n = match parse_name(name) {
            Ok(n) => n,
            Err(_) => return Err("FilenameError"),
        };
        let d = &self.vols[vol].dirs[&dir];
        if &n == b".          " {
            return Ok(dir);
        }
        if &n == b"..         " {
            return match d.parent {
                Some(p) => Ok(p),
                None => Err("NotFound"),
            };
        }
        match d.entries.get(&n) {
            None => Err("NotFound"),
            Some(MNode::Dir(id)) => Ok(*id),
            Some(MNode::File(_)) => Err("OpenedFileAsDir"),
            Some(MNode::Other) => Err("OpenedFileAsDir"),
        }
    }

    pub fn op_open_dir(&mut self, ds: u8, name: &str, nds: u8, fl: u8) {
        let opk = "open_dir";
        if self.dslots.get(nds as usize).map_or(true, |s| s.cur.is_some()) {
            return;
        }
        let (h, dh) = match self.dslots.get(ds as usize).and_then(|s| s.cur.clone()) {
            Some(x) => x,
            None => return,
        };
        let mut errs: Vec<&'static str> = Vec::new();
        if self.open_dir_count() >= self.limits.0 {
            errs.push("TooManyOpenDirs");
        }
        let target = self.resolve_dir(dh.vol, dh.dir, name);
        if let Err(e) = target {
            errs.push(e);
        }
        let nm = Name::Str(name.to_string());
        let r = got(self.call(|fs| fs.open_dir(h, &nm, fl)));
        let n = r.name();
        let ctx = match &target {
            Ok(_) => "dir",
            Err(e) => e,
        };
        let ok = self.judge(opk, ctx, n, name, errs.is_empty(), &errs);
        if ok {
            if let Got::Ok(d) = r {
                self.check_new_handle_pub(handle_num(&d), "directory");
                self.dslots[nds as usize].cur = Some((d, DH { vol: dh.vol, dir: target.unwrap() }));
                self.probes.hit("subdir_opened");
            }
        }
        let a = Allow { read_only: true, ..Default::default() };
        self.finish(opk, &a, None);
    }

    pub fn op_change_dir(&mut self, ds: u8, name: &str) {
        let opk = "change_dir";
        let (h, dh) = match self.dslots.get(ds as usize).and_then(|s| s.cur.clone()) {
            Some(x) => x,
            None => return,
        };
        let mut errs: Vec<&'static str> = Vec::new();
        if self.open_dir_count() >= self.limits.0 {
            errs.push("TooManyOpenDirs");
        }
        let target = self.resolve_dir(dh.vol, dh.dir, name);
        if let Err(e) = target {
            errs.push(e);
        }
        let nm = Name::Str(name.to_string());
        let r = self.call(|fs| fs.change_dir(h, &nm));
        match r {
            Ok((newh, res)) => {
                let g = got::<()>(Ok(res));
                let n = g.name();
                let ok = self.judge(opk, if target.is_ok() { "dir" } else { "bad" }, n, name, errs.is_empty(), &errs);
                if ok && n == "Ok" {
                    self.check_new_handle_pub(handle_num(&newh), "directory");
                    self.dslots[ds as usize].dead = Some(h);
                    self.dslots[ds as usize].cur = Some((newh, DH { vol: dh.vol, dir: target.unwrap() }));
                } else if ok && handle_num(&newh) != handle_num(&h) {
                    self.violate("C08", "change-dir-handle", "failed-call-changed-handle", String::new());
                }
            }
            Err(p) => {
                self.violate("C07", "panic", opk, p.msg);
                self.abort("panic");
            }
        }
        let a = Allow { read_only: true, ..Default::default() };
        self.finish(opk, &a, None);
    }

    pub fn op_close_dir(&mut self, ds: u8, fl: u8) {
        let opk = "close_dir";
        let (h, _) = match self.dslots.get(ds as usize).and_then(|s| s.cur.clone()) {
            Some(x) => x,
            None => return,
        };
        let r = got(self.call(|fs| fs.close_dir(h, fl)));
        let n = r.name();
        if self.judge(opk, "", n, "", true, &[]) {
            self.dslots[ds as usize].cur = None;
            self.dslots[ds as usize].dead = Some(h);
        }
        let a = Allow { read_only: true, ..Default::default() };
        self.finish(opk, &a, None);
    }

    pub fn op_find(&mut self, ds: u8, name: &str, fl: u8) {
        let opk = "find_directory_entry";
        let (h, dh) = match self.dslots.get(ds as usize).and_then(|s| s.cur.clone()) {
            Some(x) => x,
            None => return,
        };
        let parsed = parse_name(name);
        let (_, _, ents) = self.disk_dir(dh.vol, dh.dir);
        let hit = parsed.ok().and_then(|n| ents.iter().find(|e| e.name == n).cloned());
        let errs: Vec<&'static str> = if parsed.is_err() { vec!["FilenameError"] } else if hit.is_none() { vec!["NotFound"] } else { vec![] };
        let nm = Name::Str(name.to_string());
        let r = got(self.call(|fs| fs.find(h, &nm, fl)));
        let n = r.name();
        let ok = self.judge(opk, if hit.is_some() { "present" } else { "absent" }, n, name, errs.is_empty(), &errs);
        if ok {
            if let (Got::Ok(de), Some(e)) = (&r, &hit) {
                if let Some(d) = self.cmp_entry_pub(de, e) {
                    self.violate("C06", "lookup-entry", d.split(' ').next().unwrap_or(""), format!("{}: {}", name, d));
                }
                // model cross-check (C06: lookup succeeds exactly for listed names)
            }
        }
        let a = Allow { read_only: true, ..Default::default() };
        self.finish(opk, &a, None);
    }

    pub fn cmp_entry_pub(&self, de: &DirEntry, e: &fatspec::Ent) -> Option<String> {
        cmp_entry(de, e)
    }

    pub fn op_iterate(&mut self, ds: u8, fl: u8, lfn: Option<u16>, reent: Option<u8>) {
        let opk = "iterate_dir";
        let (h, dh) = match self.dslots.get(ds as usize).and_then(|s| s.cur.clone()) {
            Some(x) => x,
            None => return,
        };
        let (_, _, ents) = self.disk_dir(dh.vol, dh.dir);
        let mut seen: Vec<(DirEntry, Option<Option<String>>)> = Vec::new();
        let mut reent_results: Vec<(&'static str, &'static str)> = Vec::new();
        // handles for the re-entrant calls
        let any_vol = self.vslots.iter().find_map(|s| s.cur.as_ref().map(|x| x.0)).or(self.vslots.iter().find_map(|s| s.dead));
        let any_file = self.fslots.iter().find_map(|s| s.cur.as_ref().map(|x| x.0)).or(self.fslots.iter().find_map(|s| s.dead));
        let writes_before = self.disk.st.borrow().stats.writes;
        let r = {
            let seen_ref = &mut seen;
            let rr = &mut reent_results;
            let mut fired = false;
            self.call(|fs| {
                let mut cb_reent = |fs: &dyn crate::fs::Fs| {
                    if let Some(k) = reent {
                        if !fired {
                            fired = true;
                            reentrant_calls(fs, k, h, any_vol, any_file, rr);
                        }
                    }
                };
                match lfn {
                    None => fs.iterate(h, fl, &mut |e| {
                        seen_ref.push((e.clone(), None));
                        cb_reent(fs);
                    }),
                    Some(sz) => {
                        let mut buf = vec![0u8; sz as usize];
                        fs.iterate_lfn(h, &mut buf, fl, &mut |e, s| {
                            seen_ref.push((e.clone(), Some(s.map(|x| x.to_string()))));
                            cb_reent(fs);
                        })
                    }
                }
            })
        };
        let r = got(r);
        let n = r.name();
        let ok = self.judge(opk, "", n, "", true, &[]);
        if ok {
            // C06: exactly the live non-LFN entries, in order
            if seen.len() != ents.len() {
                self.violate("C06", "listing-length", if seen.len() < ents.len() { "short" } else { "long" }, format!("library {} entries, reader {}", seen.len(), ents.len()));
            } else {
                for (i, ((de, _), e)) in seen.iter().zip(ents.iter()).enumerate() {
                    if let Some(d) = self.cmp_entry_pub(de, e) {
                        self.violate("C06", "listing-entry", d.split(' ').next().unwrap_or(""), format!("entry {}: {}", i, d));
                        break;
                    }
                }
            }
            // ... and "live" means what the history made: every name the model holds is listed, nothing else is
            // (the listing has just been compared with the reader's entries, whose names are exact)
            if !self.faulty && self.relax.is_empty() && self.viols.is_empty() {
                let model: std::collections::BTreeSet<[u8; 11]> = self.vols[dh.vol].dirs.get(&dh.dir).map(|d| d.entries.keys().cloned().collect()).unwrap_or_default();
                let listed: std::collections::BTreeSet<[u8; 11]> = ents.iter().filter(|e| !e.is_dot()).map(|e| e.name).collect();
                if let Some(n) = model.difference(&listed).next() {
                    self.violate("C06", "listing-misses-live-entry", "", format!("{} exists by the history but is not listed ({} listed, {} expected)", fatspec::name_str(n), listed.len(), model.len()));
                } else if let Some(n) = listed.difference(&model).next() {
                    self.violate("C06", "listing-shows-unknown-entry", "", format!("{} is listed but nothing created it", fatspec::name_str(n)));
                }
                self.probes.hit("listing_compared_with_model");
            }
            self.probes.hit("listing_checked");
            if ents.len() > 16 {
                self.probes.hit("listing_over_one_block");
            }
            // C08: re-entrancy
            for (m, res) in &reent_results {
                if *res != "LockError" {
                    self.violate("C08", "reentrant-call", m, format!("{} from inside the callback returned {}", m, res));
                }
            }
            if !reent_results.is_empty() {
                self.probes.add("reentrant_calls", reent_results.len() as u64);
                if self.disk.st.borrow().stats.writes != writes_before {
                    self.violate("C08", "reentrant-call-wrote", "", String::new());
                }
            }
        }
        let a = Allow { read_only: true, ..Default::default() };
        self.finish(opk, &a, None);
        let _ = DirLoc::Fat16Root;
    }

    pub fn op_stale_vol(&mut self, vs: u8, m: u8) {
        let opk = "stale_volume";
        let h = match self.vslots.get(vs as usize).and_then(|s| if s.cur.is_none() { s.dead } else { None }) {
            Some(h) => h,
            None => return,
        };
        // the same number may legitimately be in use again after a wrap of the counter
        if self.any_open_handle_has(handle_num(&h)) {
            return;
        }
        let dirs_full = self.open_dir_count() >= self.limits.0;
        let mut leaked_dir: Option<embedded_sdmmc::RawDirectory> = None;
        let (name, r): (&'static str, Got<()>) = match m % 3 {
            0 => ("close_volume", got(self.call(|fs| fs.close_volume(h, 0)))),
            1 => {
                let r = got(self.call(|fs| fs.open_root_dir(h, 0)));
                let r2 = match r {
                    Got::Ok(d) => {
                        leaked_dir = Some(d);
                        Got::Ok(())
                    }
                    Got::Err(e) => Got::Err(e),
                    Got::Panic(p) => Got::Panic(p),
                };
                ("open_root_dir", r2)
            }
            _ => ("get_root_volume_label", got(self.call(|fs| fs.volume_label(h).map(|_| ())))),
        };
        let n = r.name();
        let mut errs = vec!["BadHandle"];
        if dirs_full && m % 3 == 1 {
            errs.push("TooManyOpenDirs");
        }
        if let Some(d) = leaked_dir {
            // the library handed out a directory on a closed volume: report it, then give the
            // slot back so that the rest of the history can still be judged
            self.ev("stale_volume:open_root_dir:Ok");
            self.violate("C08", "result", "stale_volume:open_root_dir:got=Ok", "expected [\"BadHandle\"]; closed volume handle".into());
            let _ = self.call(|fs| fs.close_dir(d, 0));
        } else {
            self.judge(opk, name, n, "closed volume handle", false, &errs);
        }
        self.probes.hit("stale_handle_used");
        let a = Allow { read_only: true, ..Default::default() };
        self.finish(opk, &a, None);
    }

    pub fn any_open_handle_has(&self, num: u64) -> bool {
        self.vslots.iter().any(|s| s.cur.as_ref().map_or(false, |(h, _)| handle_num(h) == num))
            || self.dslots.iter().any(|s| s.cur.as_ref().map_or(false, |(h, _)| handle_num(h) == num))
            || self.fslots.iter().any(|s| s.cur.as_ref().map_or(false, |(h, _)| handle_num(h) == num))
    }

    pub fn op_stale_dir(&mut self, ds: u8, m: u8) {
        let opk = "stale_dir";
        let h = match self.dslots.get(ds as usize).and_then(|s| if s.cur.is_none() { s.dead } else { None }) {
            Some(h) => h,
            None => return,
        };
        if self.any_open_handle_has(handle_num(&h)) {
            return;
        }
        let dirs_full = self.open_dir_count() >= self.limits.0;
        let files_full = self.open_file_count() >= self.limits.1;
        // variant (m >= 64): a name that is no valid 8.3 name - the closed handle must still be what is reported
        let nm = Name::Str(if m >= 64 { "BAD*NAME.TXT".to_string() } else { "STALE.TST".to_string() });
        let m = m % 64;
        let mut errs = vec!["BadHandle"];
        let (name, r): (&'static str, Got<()>) = match m % 9 {
            0 => {
                if dirs_full {
                    errs.push("TooManyOpenDirs");
                }
                ("open_dir", got(self.call(|fs| fs.open_dir(h, &nm, 0).map(|_| ()))))
            }
            1 => ("close_dir", got(self.call(|fs| fs.close_dir(h, 0)))),
            2 => ("find_directory_entry", got(self.call(|fs| fs.find(h, &nm, 0).map(|_| ())))),
            3 => ("iterate_dir", got(self.call(|fs| fs.iterate(h, 0, &mut |_| {})))),
            4 => ("iterate_dir_lfn", got(self.call(|fs| {
                let mut b = [0u8; 64];
                fs.iterate_lfn(h, &mut b, 0, &mut |_, _| {})
            }))),
            5 | 6 => {
                if files_full {
                    errs.push("TooManyOpenFiles");
                }
                let mode = if m % 9 == 5 { embedded_sdmmc::Mode::ReadOnly } else { embedded_sdmmc::Mode::ReadWriteCreate };
                ("open_file_in_dir", got(self.call(|fs| fs.open_file(h, &nm, mode, 0).map(|_| ()))))
            }
            7 => ("delete_file_in_dir", got(self.call(|fs| fs.delete(h, &nm, 0)))),
            _ => {
                if dirs_full {
                    errs.push("TooManyOpenDirs");
                }
                ("make_dir_in_dir", got(self.call(|fs| fs.make_dir(h, &nm, 0))))
            }
        };
        let n = r.name();
        self.judge(opk, name, n, "closed directory handle", false, &errs);
        self.probes.hit("stale_handle_used");
        let a = Allow { read_only: true, ..Default::default() };
        self.finish(opk, &a, None);
    }
}

/// Invoke result-returning API method number `k` from inside a directory callback.
pub fn reentrant_calls(
    fs: &dyn crate::fs::Fs,
    k: u8,
    d: embedded_sdmmc::RawDirectory,
    v: Option<embedded_sdmmc::RawVolume>,
    f: Option<embedded_sdmmc::RawFile>,
    out: &mut Vec<(&'static str, &'static str)>,
) {
    use crate::fs::err_name;
    fn cls<T>(r: Result<T, crate::fs::LibErr>) -> &'static str {
        match r {
            Ok(_) => "Ok",
            Err(e) => err_name(&e),
        }
    }
    let nm = Name::Str("REENT.TST".to_string());
    let fl = k & 1; // raw or RAII forwarder
    match (k / 2) % 14 {
        0 => {
            out.push(("open_volume", cls(fs.open_volume(0, fl))));
            out.push(("open_volume", cls(fs.open_volume(1, fl))));
            // a partition number that cannot exist: the lock comes first all the same
            out.push(("open_volume", cls(fs.open_volume(9, fl))));
        }
        1 => {
            if let Some(v) = v {
                out.push(("open_root_dir", cls(fs.open_root_dir(v, fl))));
                out.push(("close_volume", cls(fs.close_volume(v, fl.min(1)))));
                out.push(("get_root_volume_label", cls(fs.volume_label(v))));
            }
        }
        2 => {
            out.push(("open_dir", cls(fs.open_dir(d, &nm, fl))));
            out.push(("open_dir", cls(fs.open_dir(d, &Name::Str(".".into()), fl))));
        }
        3 => out.push(("find_directory_entry", cls(fs.find(d, &nm, fl)))),
        4 => {
            out.push(("iterate_dir", cls(fs.iterate(d, fl, &mut |_| {}))));
            let mut b = [0u8; 32];
            out.push(("iterate_dir_lfn", cls(fs.iterate_lfn(d, &mut b, fl, &mut |_, _| {}))));
        }
        5 => {
            out.push(("open_file_in_dir", cls(fs.open_file(d, &nm, embedded_sdmmc::Mode::ReadWriteCreateOrAppend, fl))));
            out.push(("open_file_in_dir", cls(fs.open_file(d, &nm, embedded_sdmmc::Mode::ReadOnly, fl))));
        }
        6 => {
            out.push(("delete_file_in_dir", cls(fs.delete(d, &nm, fl))));
            out.push(("make_dir_in_dir", cls(fs.make_dir(d, &nm, fl))));
        }
        7 => {
            if let Some(f) = f {
                let mut b = [0u8; 8];
                out.push(("read", cls(fs.read(f, &mut b, fl))));
                out.push(("write", cls(fs.write(f, b"reentrant", fl))));
            }
        }
        8 => {
            if let Some(f) = f {
                out.push(("flush_file", cls(fs.flush_file(f, fl))));
                out.push(("file_seek_from_start", cls(fs.seek_start(f, 0, fl))));
                out.push(("file_seek_from_current", cls(fs.seek_cur(f, 0, fl))));
                out.push(("file_seek_from_end", cls(fs.seek_end(f, 0, fl))));
            }
        }
        9 => {
            if let Some(f) = f {
                // raw flavour only: the RAII forwarders of these are not result-returning
                out.push(("file_length", cls(fs.length(f, 0))));
                out.push(("file_offset", cls(fs.offset(f, 0))));
                out.push(("file_eof", cls(fs.eof(f, 0))));
                out.push(("stream_position", cls(fs.stream_pos(f))));
            }
        }
        10 => {
            // close_dir on another handle value (same table)
            out.push(("close_dir", cls(fs.close_dir(d, fl.min(1)))));
        }
        11 => {
            if let Some(f) = f {
                out.push(("close_file", cls(fs.close_file(f, fl.min(1)))));
            }
        }
        12 => {
            // zero-length transfers are calls too
            if let Some(f) = f {
                let mut b = [0u8; 0];
                out.push(("read", cls(fs.read(f, &mut b, fl))));
                out.push(("write", cls(fs.write(f, b"", fl))));
            }
        }
        _ => {
            // names that are no valid 8.3 names: the lock comes first
            let bad = Name::Str("BAD*NAME.TXT".to_string());
            out.push(("find_directory_entry", cls(fs.find(d, &bad, fl))));
            out.push(("open_dir", cls(fs.open_dir(d, &bad, fl))));
            out.push(("open_file_in_dir", cls(fs.open_file(d, &bad, embedded_sdmmc::Mode::ReadOnly, fl))));
            out.push(("delete_file_in_dir", cls(fs.delete(d, &bad, fl))));
            out.push(("make_dir_in_dir", cls(fs.make_dir(d, &bad, fl))));
        }
    }
}

/// Compare a DirEntry handed out by the library with the independent reader's decoding of the same slot.
pub fn cmp_entry(de: &DirEntry, e: &fatspec::Ent) -> Option<String> {
    if !same_name(&de.name, &e.name) {
        return Some(format!("name {:?} vs {:?}", format!("{}", de.name), e.name));
    }
    if de.size != e.size {
        return Some(format!("size {} vs {}", de.size, e.size));
    }
    if attr_bits(&de.attributes) != e.attr & 0x3F {
        return Some(format!("attr {:#x} vs {:#x}", attr_bits(&de.attributes), e.attr));
    }
    let want_cluster = if e.cluster == 0 && e.is_dir() { 0xFFFF_FFFC } else { e.cluster };
    if cluster_num(&de.cluster) != want_cluster {
        return Some(format!("cluster {:#x} vs {:#x}", cluster_num(&de.cluster), want_cluster));
    }
    if de.entry_block.0 != e.block || de.entry_offset != e.off as u32 {
        return Some(format!("location ({},{}) vs ({},{})", de.entry_block.0, de.entry_offset, e.block, e.off));
    }
    if let Some(d) = cmp_time(&de.ctime, e.ctime) {
        return Some(format!("ctime {}", d));
    }
    if let Some(d) = cmp_time(&de.mtime, e.mtime) {
        return Some(format!("mtime {}", d));
    }
    None
}

/// The public API shows a ShortFileName only through Display, base_name()/extension() and csum().
/// Two names are taken as equal when the checksum over all eleven bytes agrees and Display prints
/// what it must print for the reader's bytes (every non-space byte in order, a dot before the
/// extension).
pub fn same_name(n: &embedded_sdmmc::ShortFileName, raw: &[u8; 11]) -> bool {
    // the checksum is over the bytes as stored: a name that starts with 0xE5 is stored with 0x05
    let mut stored = *raw;
    if stored[0] == 0xE5 {
        stored[0] = 0x05;
    }
    if n.csum() != fatspec::sfn_checksum(&stored) {
        return false;
    }
    let mut want = String::new();
    for (i, &c) in raw.iter().enumerate() {
        if c != b' ' {
            if i == 8 {
                want.push('.');
            }
            want.push(c as char);
        }
    }
    format!("{}", n) == want
}
