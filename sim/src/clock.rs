//! SimClock: the simulated wall clock behind the `TimeSource` seam.
//! The value is fixed during an API call and moved between calls by the scenario.

use embedded_sdmmc::{TimeSource, Timestamp};
use std::cell::Cell;

/// seconds since 1980-01-01 00:00:00
pub const MAX_SECS: u64 = 4_039_286_399; // 2107-12-31 23:59:59

#[derive(Clone, Copy, Debug, PartialEq, Eq, PartialOrd, Ord, serde::Serialize, serde::Deserialize)]
pub struct Cal {
    pub year: u16,
    pub month: u8,
    pub day: u8,
    pub h: u8,
    pub m: u8,
    pub s: u8,
}

fn days_from_civil(y: i64, m: i64, d: i64) -> i64 {
    let y = if m <= 2 { y - 1 } else { y };
    let era = if y >= 0 { y } else { y - 399 } / 400;
    let yoe = y - era * 400;
    let doy = (153 * (if m > 2 { m - 3 } else { m + 9 }) + 2) / 5 + d - 1;
    let doe = yoe * 365 + yoe / 4 - yoe / 100 + doy;
    era * 146097 + doe - 719468
}

fn civil_from_days(z: i64) -> (i64, i64, i64) {
    let z = z + 719468;
    let era = if z >= 0 { z } else { z - 146096 } / 146097;
    let doe = z - era * 146097;
    let yoe = (doe - doe / 1460 + doe / 36524 - doe / 146096) / 365;
    let y = yoe + era * 400;
    let doy = doe - (365 * yoe + yoe / 4 - yoe / 100);
    let mp = (5 * doy + 2) / 153;
    let d = doy - (153 * mp + 2) / 5 + 1;
    let m = if mp < 10 { mp + 3 } else { mp - 9 };
    (if m <= 2 { y + 1 } else { y }, m, d)
}

pub fn cal_of_secs(secs: u64) -> Cal {
    let days = (secs / 86400) as i64 + days_from_civil(1980, 1, 1);
    let rem = secs % 86400;
    let (y, m, d) = civil_from_days(days);
    Cal { year: y as u16, month: m as u8, day: d as u8, h: (rem / 3600) as u8, m: (rem / 60 % 60) as u8, s: (rem % 60) as u8 }
}

pub fn secs_of_cal(c: Cal) -> u64 {
    let days = days_from_civil(c.year as i64, c.month as i64, c.day as i64) - days_from_civil(1980, 1, 1);
    days as u64 * 86400 + c.h as u64 * 3600 + c.m as u64 * 60 + c.s as u64
}

impl Cal {
    /// What a FAT directory entry can hold of this instant: two-second resolution.
    pub fn fat_rounded(self) -> Cal {
        Cal { s: self.s & !1, ..self }
    }
    /// Encode as FAT (date, time) words, per the specification.
    pub fn to_fat(self) -> (u16, u16) {
        let date = ((self.year - 1980) << 9) | ((self.month as u16) << 5) | self.day as u16;
        let time = ((self.h as u16) << 11) | ((self.m as u16) << 5) | (self.s as u16 / 2);
        (date, time)
    }
    /// Decode FAT (date, time) words, per the specification (no validation).
    pub fn from_fat(date: u16, time: u16) -> Cal {
        Cal {
            year: 1980 + (date >> 9),
            month: ((date >> 5) & 0xF) as u8,
            day: (date & 0x1F) as u8,
            h: (time >> 11) as u8,
            m: ((time >> 5) & 0x3F) as u8,
            s: ((time & 0x1F) * 2) as u8,
        }
    }
    pub fn of_timestamp(t: &Timestamp) -> Cal {
        Cal {
            year: 1970 + t.year_since_1970 as u16,
            month: t.zero_indexed_month + 1,
            day: t.zero_indexed_day + 1,
            h: t.hours,
            m: t.minutes,
            s: t.seconds,
        }
    }
}

pub struct SimClock {
    pub secs: Cell<u64>,
    pub calls: Cell<u64>,
    pub min_seen: Cell<u64>,
    pub max_seen: Cell<u64>,
}

impl SimClock {
    pub fn new(secs: u64) -> SimClock {
        SimClock { secs: Cell::new(secs), calls: Cell::new(0), min_seen: Cell::new(u64::MAX), max_seen: Cell::new(0) }
    }
    pub fn set(&self, secs: u64) {
        self.secs.set(secs.min(MAX_SECS));
    }
    pub fn now(&self) -> Cal {
        cal_of_secs(self.secs.get())
    }
}

impl TimeSource for &SimClock {
    fn get_timestamp(&self) -> Timestamp {
        self.calls.set(self.calls.get() + 1);
        let s = self.secs.get();
        if s < self.min_seen.get() {
            self.min_seen.set(s);
        }
        if s > self.max_seen.get() {
            self.max_seen.set(s);
        }
        let c = cal_of_secs(s);
        Timestamp {
            year_since_1970: (c.year - 1970) as u8,
            zero_indexed_month: c.month - 1,
            zero_indexed_day: c.day - 1,
            hours: c.h,
            minutes: c.m,
            seconds: c.s,
        }
    }
}

#[cfg(test)]
mod t {
    use super::*;
    #[test]
    fn roundtrip() {
        assert_eq!(cal_of_secs(0), Cal { year: 1980, month: 1, day: 1, h: 0, m: 0, s: 0 });
        let c = cal_of_secs(MAX_SECS);
        assert_eq!(c, Cal { year: 2107, month: 12, day: 31, h: 23, m: 59, s: 59 });
        for s in [0u64, 59, 86399, 86400, 951782400, 1234567890, MAX_SECS] {
            assert_eq!(secs_of_cal(cal_of_secs(s)), s);
        }
    }
}
