//! Crash-point enumeration (C09, C10): a history is executed once fault-free while every
//! block write is logged; then the medium is rebuilt write by write and, at EVERY prefix of the
//! write sequence ("power fails after write k"), judged by the independent reader and by a
//! fresh mount of the library.

use crate::batch::CaseOutcome;
use crate::clock::SimClock;
use crate::disk::{Blk, RoDisk, SimDisk};
use crate::fatspec::{self, DirLoc, FatView, FsckOpts, Geom};
use crate::fs::{make_fs, Name};
use crate::gen::{profile_for, Gen};
use crate::mkfs::build_device;
use crate::ops::{Op, Scenario};
use crate::rng::Rng;
use crate::runner::gen_header;
use crate::world::*;
use embedded_sdmmc::Mode;
use std::collections::{BTreeMap, BTreeSet};

type Path = (usize, Vec<[u8; 11]>);

#[derive(Clone, Default)]
struct Snap {
    /// durable files: (vol, path incl. file name) -> (len, hash)
    durable: BTreeMap<Path, (u32, u64)>,
    /// live names per directory
    names: BTreeMap<Path, BTreeSet<[u8; 11]>>,
}

fn snapshot(w: &World) -> Snap {
    let mut s = Snap::default();
    for (vi, v) in w.vols.iter().enumerate() {
        let mut stack: Vec<(u32, Vec<[u8; 11]>)> = vec![(0, Vec::new())];
        while let Some((id, path)) = stack.pop() {
            let d = &v.dirs[&id];
            let mut names: BTreeSet<[u8; 11]> = BTreeSet::new();
            if d.parent.is_some() {
                names.insert(*b".          ");
                names.insert(*b"..         ");
            }
            for (n, node) in &d.entries {
                names.insert(*n);
                match node {
                    MNode::Dir(c) => {
                        let mut p = path.clone();
                        p.push(*n);
                        stack.push((*c, p));
                    }
                    MNode::File(f) => {
                        if f.durable && f.clean {
                            if let Content::Mem(data) = &f.data {
                                let mut p = path.clone();
                                p.push(*n);
                                s.durable.insert((vi, p), (data.len() as u32, crate::rng::fnv(data)));
                            }
                        }
                    }
                    MNode::Other => {}
                }
            }
            s.names.insert((vi, path), names);
        }
    }
    s
}

struct Recorded {
    scenario: Scenario,
    /// applied writes in order: (block, data)
    writes: Vec<(u32, Box<Blk>)>,
    /// per executed op: (index in scenario.ops, number of writes before it, number after it)
    op_ranges: Vec<(usize, usize, usize)>,
    /// snaps[i] = state after op i (snaps[0] = initial)
    snaps: Vec<Snap>,
    geoms: Vec<Geom>,
    slots: Vec<u8>,
    probes: Probes,
    viols: Vec<Violation>,
    aborted: bool,
    api_calls: u64,
    ev_hash: u64,
}

fn record(header: &Scenario, gen: Option<(Rng, &str)>) -> Recorded {
    let (img, outs) = build_device(&header.dev);
    let disk = SimDisk::new(img);
    let clock = SimClock::new(header.clock0);
    let fs = make_fs(header.limits, &disk, &clock, header.id_offset);
    let mut w = World::new(&disk, &clock, fs, &header.dev, &outs);
    let mut snaps = vec![snapshot(&w)];
    let mut op_ranges = Vec::new();
    let mut ops_done: Vec<Op> = Vec::new();
    let mut api_calls = 0u64;
    let count_writes = |d: &SimDisk| d.st.borrow().log.iter().filter(|e| e.write && e.applied).count();
    let mut g = gen.map(|(rng, prof)| Gen::new(rng, profile_for(prof), header.clock0));
    let mut i = 0usize;
    loop {
        if w.aborted.is_some() {
            break;
        }
        let op = match g.as_mut() {
            Some(g) => {
                if ops_done.len() >= g.target_len {
                    break;
                }
                match g.next(&w) {
                    Some(op) => op,
                    None => break,
                }
            }
            None => {
                if i >= header.ops.len() {
                    break;
                }
                header.ops[i].clone()
            }
        };
        let before = count_writes(&disk);
        w.op_idx = i;
        w.step(&op);
        let after = count_writes(&disk);
        if op.is_api_call() {
            api_calls += 1;
        }
        op_ranges.push((i, before, after));
        snaps.push(snapshot(&w));
        ops_done.push(op);
        i += 1;
    }
    let st = disk.st.borrow();
    let writes: Vec<(u32, Box<Blk>)> = st.log.iter().filter(|e| e.write && e.applied).map(|e| (e.block, e.data.clone().unwrap())).collect();
    let mut sc = header.clone();
    sc.ops = ops_done;
    Recorded {
        scenario: sc,
        writes,
        op_ranges,
        snaps,
        geoms: outs.iter().map(|o| o.geom.clone()).collect(),
        slots: header.dev.vols.iter().map(|v| v.slot).collect(),
        probes: w.probes.clone(),
        viols: w.viols.clone(),
        aborted: w.aborted.is_some(),
        api_calls,
        ev_hash: w.ev_hash,
    }
}

/// Resolve a path with the independent reader. Returns the entry and, for files, the chain.
fn lookup(img: &crate::disk::Image, g: &Geom, fat: &FatView, path: &[[u8; 11]]) -> Option<(fatspec::Ent, Vec<u32>)> {
    let mut loc = if g.fat32 { DirLoc::Cluster(g.root_cluster) } else { DirLoc::Fat16Root };
    for (i, comp) in path.iter().enumerate() {
        let (slots, _, _) = fatspec::dir_slots(img, g, fat, loc);
        let ents = fatspec::live_entries(&slots, g.fat32);
        let e = ents.into_iter().find(|e| &e.name == comp && !(e.is_vol() && !e.is_dir()))?;
        if i + 1 == path.len() {
            let ch = if e.cluster >= 2 { fatspec::chain(fat, g, e.cluster).0 } else { Vec::new() };
            return Some((e, ch));
        }
        if !e.is_dir() || !g.valid_cluster(e.cluster) {
            return None;
        }
        loc = DirLoc::Cluster(e.cluster);
    }
    None
}

/// Read `path` through a fresh mount of the library over the crash image.
fn lib_read(img: &crate::disk::Image, slot: u8, path: &[[u8; 11]], want_len: u32) -> Result<Vec<u8>, String> {
    let clock = SimClock::new(0);
    let ro = RoDisk::new(img);
    let r = std::panic::catch_unwind(std::panic::AssertUnwindSafe(|| -> Result<Vec<u8>, String> {
        let fs = make_fs((4, 4, 1), &ro, &clock, 9);
        let v = fs.open_volume(slot as usize, 0).map_err(|e| format!("mount: {:?}", e))?;
        let mut cur = fs.open_root_dir(v, 0).map_err(|e| format!("root: {:?}", e))?;
        for comp in &path[..path.len() - 1] {
            let nm = crate::names::sfn_to_string(comp).ok_or("name")?;
            let d = fs.open_dir(cur, &Name::Str(nm), 0).map_err(|e| format!("open_dir: {:?}", e))?;
            let _ = fs.close_dir(cur, 0);
            cur = d;
        }
        let nm = crate::names::sfn_to_string(&path[path.len() - 1]).ok_or("name")?;
        let f = fs.open_file(cur, &Name::Str(nm), Mode::ReadOnly, 0).map_err(|e| format!("open: {:?}", e))?;
        let mut buf = vec![0u8; want_len as usize];
        let mut got = 0usize;
        while got < buf.len() {
            let n = fs.read(f, &mut buf[got..], 0).map_err(|e| format!("read: {:?}", e))?;
            if n == 0 {
                break;
            }
            got += n;
        }
        buf.truncate(got);
        Ok(buf)
    }));
    match r {
        Ok(x) => x,
        Err(_) => Err(format!("panic at {}", crate::last_panic_location())),
    }
}

fn lib_mounts(img: &crate::disk::Image, slot: u8) -> Result<(), String> {
    let clock = SimClock::new(0);
    let mut ro = RoDisk::new(img);
    ro.cap = 2_000_000;
    let r = std::panic::catch_unwind(std::panic::AssertUnwindSafe(|| -> Result<(), String> {
        let fs = make_fs((4, 4, 1), &ro, &clock, 9);
        let v = fs.open_volume(slot as usize, 0).map_err(|e| format!("{:?}", e))?;
        let d = fs.open_root_dir(v, 0).map_err(|e| format!("{:?}", e))?;
        // the library itself must be able to list the root and every directory directly below it
        let mut subs: Vec<embedded_sdmmc::ShortFileName> = Vec::new();
        fs.iterate(d, 0, &mut |e| {
            if e.attributes.is_directory() && !e.attributes.is_volume() && subs.len() < 8 {
                subs.push(e.name.clone());
            }
        })
        .map_err(|e| format!("{:?}", e))?;
        for n in subs {
            if let Ok(sd) = fs.open_dir(d, &Name::Sfn(n), 0) {
                let _ = fs.iterate(sd, 0, &mut |_| {});
                let _ = fs.close_dir(sd, 0);
            }
        }
        Ok(())
    }));
    match r {
        Ok(x) => x,
        Err(_) => Err(format!("panic at {}", crate::last_panic_location())),
    }
}

pub fn crash_eval(prop: &'static str, rec: &Recorded2) -> CaseOutcome {
    let rec = &rec.0;
    let mut out = CaseOutcome::default();
    out.case = serde_json::to_value(&rec.scenario).unwrap();
    out.probes = rec.probes.clone();
    out.api_calls = rec.api_calls;
    out.ev_hash = rec.ev_hash;
    // violations of the fault-free execution belong to the history checks; a run that was cut short is still usable up to there
    out.foreign_abort = rec.aborted;
    let (mut img, _) = build_device(&rec.scenario.dev);
    let mut fats: Vec<FatView> = rec.geoms.iter().map(|g| FatView::load(&img, g, 0)).collect();
    let mut evals = 0u64;
    let mut viols: Vec<Violation> = Vec::new();
    let mut h = rec.ev_hash;
    for (oi, &(op_idx, w0, w1)) in rec.op_ranges.iter().enumerate() {
        let before = &rec.snaps[oi];
        let after = &rec.snaps[oi + 1];
        let opk = rec.scenario.ops[op_idx].kind();
        for k in w0..w1 {
            // apply write k
            let (blk, data) = &rec.writes[k];
            img.set(*blk, data);
            for (vi, g) in rec.geoms.iter().enumerate() {
                if *blk >= g.first_fat && *blk < g.first_fat + g.fat_size {
                    fats[vi].refresh_block(&img, g, *blk);
                }
            }
            let last = k + 1 == w1;
            evals += 1;
            out.probes.hit("crash_points");
            if !last {
                out.probes.hit("crash_points_inside_an_operation");
            }
            if prop == "C09" {
                // durable files required in this state
                let req: Vec<(&Path, &(u32, u64))> = if last { after.durable.iter().collect() } else { before.durable.iter().filter(|(p, v)| after.durable.get(*p) == Some(*v)).collect() };
                for (p, (len, hash)) in req {
                    out.probes.hit("durable_file_checked_at_crash_point");
                    let g = &rec.geoms[p.0];
                    let found = lookup(&img, g, &fats[p.0], &p.1);
                    let pstr = p.1.iter().map(fatspec::name_str).collect::<Vec<_>>().join("/");
                    match found {
                        None => viols.push(Violation { prop: "C09", oracle: "durable-file-missing".into(), disc: opk.into(), detail: format!("/{} gone after write {} of {} (op {})", pstr, k - w0 + 1, w1 - w0, op_idx), op_idx }),
                        Some((e, ch)) => {
                            if e.size < *len {
                                viols.push(Violation { prop: "C09", oracle: "durable-file-shorter".into(), disc: opk.into(), detail: format!("/{}: size {} < flushed {} after write {} of op {}", pstr, e.size, len, k - w0 + 1, op_idx), op_idx });
                            } else {
                                let data = fatspec::read_chain_bytes(&img, g, &ch, *len);
                                if data.len() as u32 != *len || crate::rng::fnv(&data) != *hash {
                                    viols.push(Violation { prop: "C09", oracle: "durable-file-content".into(), disc: opk.into(), detail: format!("/{}: first {} bytes differ from the flushed contents after write {} of op {}", pstr, len, k - w0 + 1, op_idx), op_idx });
                                }
                            }
                        }
                    }
                    // the library's own fresh mount must agree
                    if *len <= 200_000 {
                        match lib_read(&img, rec.slots[p.0], &p.1, *len) {
                            Ok(d) => {
                                if d.len() as u32 != *len || crate::rng::fnv(&d) != *hash {
                                    viols.push(Violation { prop: "C09", oracle: "durable-file-lib-read".into(), disc: opk.into(), detail: format!("/{}: fresh mount reads {} bytes, not the flushed contents", pstr, d.len()), op_idx });
                                }
                            }
                            Err(e) => viols.push(Violation { prop: "C09", oracle: "durable-file-lib-open".into(), disc: opk.into(), detail: format!("/{}: {}", pstr, e), op_idx }),
                        }
                    }
                }
            } else {
                // C10: mounts, structure sound, names subset
                for (vi, g) in rec.geoms.iter().enumerate() {
                    // only volumes this write belongs to need re-judging
                    if *blk < g.part_lba || *blk >= g.part_lba + g.total {
                        continue;
                    }
                    if let Err(e) = Geom::parse(&img, g.part_lba, g.part_blocks) {
                        viols.push(Violation { prop: "C10", oracle: "does-not-mount".into(), disc: opk.into(), detail: e, op_idx });
                        continue;
                    }
                    if let Err(e) = lib_mounts(&img, rec.slots[vi]) {
                        viols.push(Violation { prop: "C10", oracle: "library-does-not-mount".into(), disc: opk.into(), detail: e, op_idx });
                    }
                    let t = fatspec::walk(&img, g, &fats[vi], &FsckOpts { crash: true, pending: Default::default() });
                    for p in &t.problems {
                        let kind = p.kind;
                        if matches!(kind, "entry-after-end" | "duplicate-name") {
                            continue;
                        }
                        viols.push(Violation { prop: "C10", oracle: format!("fsck/{}", kind), disc: opk.into(), detail: format!("{} after write {} of {} (op {})", p.detail, k - w0 + 1, w1 - w0, op_idx), op_idx });
                    }
                    for d in &t.dirs {
                        let key = (vi, d.path.clone());
                        let allowed_b = before.names.get(&key);
                        let allowed_a = after.names.get(&key);
                        for e in &d.ents {
                            if e.is_vol() && !e.is_dir() {
                                continue;
                            }
                            let ok = allowed_b.map_or(false, |s| s.contains(&e.name)) || allowed_a.map_or(false, |s| s.contains(&e.name));
                            if !ok {
                                let stale = crate::disk::is_stale_name(&e.name);
                                viols.push(Violation {
                                    prop: "C10",
                                    oracle: if stale { "stale-cluster-contents-as-entries".into() } else { "unknown-entry".into() },
                                    disc: opk.into(),
                                    detail: format!("/{}: entry {} is neither from before nor from after the call; after write {} of {} (op {})", d.path.iter().map(fatspec::name_str).collect::<Vec<_>>().join("/"), fatspec::name_str(&e.name), k - w0 + 1, w1 - w0, op_idx),
                                    op_idx,
                                });
                                break;
                            }
                        }
                    }
                }
            }
            crate::rng::fnv_add(&mut h, &(k as u64).to_le_bytes());
            if viols.len() > 8 {
                break;
            }
        }
        if viols.len() > 8 {
            break;
        }
    }
    out.evaluations = evals.max(1);
    out.nontrivial = evals > 0;
    out.ev_hash = h;
    out.faults.insert("power_cut_points".into(), evals);
    out.viols = viols;
    out
}

pub struct Recorded2(Recorded);

pub fn crash_case(prop: &'static str, seed: u64) -> CaseOutcome {
    let mut rng = Rng::new(seed);
    let p = profile_for("small");
    let mut header = gen_header(&mut rng, &p);
    header.dev.stale_fill = true;
    let rec = record(&header, Some((rng, if prop == "C09" { "crash09" } else { "small" })));
    crash_eval(prop, &Recorded2(rec))
}

pub fn crash_replay(prop: &'static str, sc: &Scenario) -> CaseOutcome {
    let rec = record(sc, None);
    crash_eval(prop, &Recorded2(rec))
}
