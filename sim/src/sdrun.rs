//! sd-sim: the real `SdCard` driver against SimCard on SimSpi/SimDelay. Workloads and oracles
//! for C12 (exact transfers, capacity, card kind), C13 (corruption detected, bounded traffic,
//! recovery) and C14 (legal conversation, judged by the checker inside the card).

use crate::batch::CaseOutcome;
use crate::rng::{payload, Rng};
use crate::sdbus::{BusHang, BusState, SimDelay, SimSpi};
use crate::sdcard_model::{crc16_bits, default_fill, Adversary, CardCfg, CardKind, SimCard};
use crate::world::{Probes, Violation};
use embedded_sdmmc::sdcard::{AcquireOpts, CardType};
use embedded_sdmmc::{Block, BlockDevice, BlockIdx, SdCard};
use serde::{Deserialize, Serialize};
use std::cell::{Cell, RefCell};
use std::collections::BTreeMap;
use std::rc::Rc;

#[derive(Serialize, Deserialize, Clone, Debug, PartialEq)]
pub enum SdOp {
    Read { block: u64, n: u8 },
    Write { block: u64, n: u8, seed: u32 },
    NumBlocks,
    NumBytes,
    CardType,
    MarkUninit,
    /// another card (kind and capacity as given) is put into the slot and the driver is told (mark_card_uninit)
    Swap { kind: u8, c_size: u32 },
    /// the initialised card is handed to a new driver object with mark_card_as_init (no identification sequence)
    HandOver,
}

#[derive(Serialize, Deserialize, Clone, Debug)]
pub struct SdCase {
    pub card: CardCfg,
    pub use_crc: bool,
    pub acquire_retries: u32,
    pub ops: Vec<SdOp>,
    pub bus_fail_at: Option<u64>,
}

fn gen_card(r: &mut Rng, slow: bool) -> CardCfg {
    let kind = *r.pick(&[CardKind::V1Sc, CardKind::V2Sc, CardKind::V2Hc]);
    let (c_size, c_size_mult, read_bl_len) = match kind {
        CardKind::V2Hc => (
            match r.below(5) {
                0 => 0,
                1 => 0x3F_FFFE,
                2 => 0xFF5F,
                _ => r.range(0, 0x3F_FFFE) as u32,
            },
            0,
            9,
        ),
        _ => (
            match r.below(5) {
                0 => 4095,
                1 => r.range(0, 16) as u32,
                _ => r.range(0, 4095) as u32,
            },
            r.below(8) as u8,
            *r.pick(&[9u8, 9, 10, 11]),
        ),
    };
    CardCfg {
        kind,
        c_size,
        c_size_mult,
        read_bl_len,
        acmd41_rounds: match r.below(6) {
            0 => 1,
            1 => r.range(100, 2000) as u32,
            _ => r.range(1, 40) as u32,
        },
        cmd0_bad_answers: *r.pick(&[0u8, 0, 0, 1, 1]),
        timing_seed: r.next_u64(),
        slow,
        gap_after_stop: r.chance(1, 2),
        ocr_extra: *r.pick(&[0u8, 0, 0x20, 0x01, 0x21]),
        resp_hi: *r.pick(&[7u8, 7, 0, 5, 2, 1]),
        cmd59_illegal: false,
        cmd0_ignored: *r.pick(&[0u8, 0, 0, 0, 1, 2]),
        cmd8_bad_echoes: *r.pick(&[0u8, 0, 0, 0, 0, 1, 2]),
        cmd12_error_at_end: r.chance(1, 3),
        adversary: Adversary::None,
    }
}

fn swapped(cur: &CardCfg, kind: u8, c_size: u32) -> CardCfg {
    let mut c = cur.clone();
    c.kind = [CardKind::V1Sc, CardKind::V2Sc, CardKind::V2Hc][(kind % 3) as usize];
    c.c_size = if c.kind == CardKind::V2Hc { c_size & 0x3F_FFFF } else { c_size & 0xFFF };
    if c.kind != CardKind::V2Hc {
        c.read_bl_len = 9;
    } else {
        c.c_size_mult = 0;
        c.read_bl_len = 9;
    }
    c.adversary = Adversary::None;
    c.cmd59_illegal = false;
    c.timing_seed ^= 0x77;
    c
}

fn gen_ops(r: &mut Rng, cap: u64, len: usize) -> Vec<SdOp> {
    let mut ops = Vec::new();
    for _ in 0..len {
        let n = match r.below(6) {
            0 | 1 | 2 => 1,
            3 => 2,
            _ => r.range(2, 8) as u8,
        };
        let n = (n as u64).min(cap.max(1)) as u8;
        // an empty slice of blocks is a legal argument too
        let n = if r.chance(1, 40) { 0 } else { n };
        let max_start = cap.saturating_sub(n as u64);
        let block = match r.below(6) {
            0 => 0,
            1 => max_start,
            2 => r.range(0, 64.min(max_start)),
            _ => r.range(0, max_start),
        };
        // (an empty transfer still names a block of the card)
        let block = if n == 0 { block.min(cap.saturating_sub(1)) } else { block };
        ops.push(match r.below(14) {
            0 => SdOp::NumBlocks,
            1 => SdOp::NumBytes,
            2 => SdOp::CardType,
            3 => SdOp::MarkUninit,
            4..=8 => SdOp::Read { block, n },
            _ => SdOp::Write { block, n, seed: r.next_u32() },
        });
    }
    ops
}

pub fn gen_case(prop: &str, seed: u64) -> SdCase {
    let mut r = Rng::new(seed);
    let slow = r.chance(1, 6);
    let mut card = gen_card(&mut r, slow);
    let use_crc = r.chance(2, 3);
    let cap = card.capacity_blocks();
    let len = r.range(2, 10) as usize;
    let mut ops = gen_ops(&mut r, cap, len);
    let mut bus_fail_at = None;
    if prop == "C13" || (prop == "C14" && r.chance(1, 3)) {
        // one adversary per run, placed where traffic exists
        let est_bytes = 200 + len as u64 * 700;
        let k = match r.below(4) {
            0 => r.range(0, 120),
            _ => r.range(0, est_bytes),
        };
        card.adversary = match r.below(if prop == "C14" { 7 } else { 17 }) {
            0 | 1 => {
                let nb = match r.below(4) {
                    0 => 1,
                    1 => 2,
                    _ => r.range(2, 16) as usize,
                };
                let start = r.range(0, 4112 - nb as u64) as u16;
                let bits: Vec<u16> = if nb == 2 && r.chance(1, 2) {
                    vec![start, r.range(0, 4111) as u16]
                } else {
                    // a burst: first and last bit of the burst flipped, the ones between at random
                    (0..nb as u16).filter(|&i| i == 0 || i + 1 == nb as u16 || r.chance(1, 2)).map(|i| start + i).collect()
                };
                Adversary::FlipBits { block_no: r.below(4) as u32, bits }
            }
            2 => Adversary::RejectWrite { block_no: r.below(3) as u32, token: *r.pick(&[0x0Bu8, 0x0D]) },
            3 => Adversary::Cmd13Error { nth: r.below(2) as u32, r1: *r.pick(&[0x00u8, 0x04, 0x20, 0x40]), r2: *r.pick(&[0x00u8, 0x01, 0x08, 0x80]) },
            4 => Adversary::BadToken { block_no: r.below(3) as u32, token: *r.pick(&[0x01u8, 0x03, 0x05, 0x09, 0x00, 0x7F, 0xFC]) },
            5 if prop == "C14" && r.chance(1, 2) => Adversary::TooSlow,
            5 => Adversary::SilentFrom(k),
            6 if prop == "C14" => match r.below(3) {
                0 => Adversary::Cmd55Damaged { nth: r.below(4) as u32 },
                1 => Adversary::AcmdDamaged { nth: r.below(4) as u32 },
                _ => Adversary::Cmd8Damaged { nth: r.below(2) as u32 },
            },
            16 => match r.below(3) {
                0 => Adversary::Cmd55Damaged { nth: r.below(5) as u32 },
                1 => Adversary::AcmdDamaged { nth: r.below(5) as u32 },
                _ => Adversary::Cmd8Damaged { nth: r.below(2) as u32 },
            },
            6 => Adversary::BusyFrom(k),
            7 if r.chance(1, 3) => Adversary::ConstFrom(k, *r.pick(&[0x55u8, 0xAA, 0x7F, 0x80, 0x01, 0xFE])),
            7 => Adversary::GarbageFrom(k),
            8 => {
                bus_fail_at = Some(r.range(0, 400));
                if r.chance(1, 3) {
                    // the card sleeps through the first CMD0: the bus error lands in the retry path (the time-out polls,
                    // the filler burst before the next attempt, the second CMD0)
                    card.cmd0_ignored = 1;
                    bus_fail_at = Some(r.range(9_990, 10_300));
                }
                Adversary::None
            }
            9 if r.chance(1, 20) => Adversary::TooSlow,
            11 => Adversary::StuckHigh { block_no: r.below(4) as u32, from: *r.pick(&[0u16, 1, 100, 256, 500, 511, 512, 513]) },
            12 => Adversary::Cmd8BadEcho,
            13 => Adversary::Cmd55Illegal,
            14 => Adversary::SwapCrc { block_no: r.below(4) as u32 },
            15 => Adversary::AlwaysCrcError,
            _ => Adversary::SilentFrom(k),
        };
        if let Adversary::Cmd13Error { r1, r2, .. } = &mut card.adversary {
            if *r1 == 0 && *r2 == 0 {
                *r2 = 0x01;
            }
        }
        if matches!(card.adversary, Adversary::TooSlow) {
            ops.insert(0, SdOp::Write { block: r.range(0, cap.saturating_sub(8)), n: r.range(1, 4).min(cap) as u8, seed: 9 });
        }
        // make sure there is traffic of the right kind
        if matches!(card.adversary, Adversary::RejectWrite { .. } | Adversary::Cmd13Error { .. }) {
            ops.insert(0, SdOp::Write { block: r.range(0, cap.saturating_sub(8)), n: if matches!(card.adversary, Adversary::Cmd13Error { .. }) { 1 } else { r.range(1, 4) as u8 }, seed: 7 });
            ops.insert(1, SdOp::Write { block: r.range(0, cap.saturating_sub(8)), n: 1, seed: 8 });
        }
        if matches!(card.adversary, Adversary::FlipBits { .. } | Adversary::BadToken { .. } | Adversary::StuckHigh { .. } | Adversary::SwapCrc { .. }) {
            ops.insert(0, SdOp::Read { block: r.range(0, cap.saturating_sub(8)), n: r.range(1, 4) as u8 });
            ops.insert(1, SdOp::Read { block: r.range(0, cap.saturating_sub(8)), n: 1 });
        }
    }
    let mut use_crc = use_crc;
    let mut acquire_retries = *r.pick(&[50u32, 50, 1, 5, 0]);
    if acquire_retries == 0 && bus_fail_at.is_none() && !matches!(card.adversary, Adversary::SilentFrom(_) | Adversary::BusyFrom(_) | Adversary::GarbageFrom(_) | Adversary::ConstFrom(..)) {
        // "no retries" is only a legal expectation of success when the card answers the first CMD0 properly
        card.cmd0_bad_answers = 0;
    }
    if acquire_retries == 0 && card.cmd0_bad_answers > 0 {
        acquire_retries = 1;
    }
    if (acquire_retries as u64) < card.cmd0_bad_answers as u64 + card.cmd0_ignored as u64 {
        card.cmd0_ignored = 0;
    }
    if card.adversary == Adversary::None && bus_fail_at.is_none() && r.chance(1, 8) {
        // another card is put into the slot half way: everything after is about the new card
        let at = r.usize_below(ops.len() + 1);
        let kind = r.below(3) as u8;
        let c_size = match r.below(3) {
            0 => r.range(0, 16) as u32,
            1 => 0x3F_FFFE,
            _ => r.next_u32(),
        };
        let newcap = swapped(&card, kind, c_size).capacity_blocks();
        let tail = gen_ops(&mut r, newcap, ops.len() - at + 2);
        ops.truncate(at);
        ops.push(SdOp::Swap { kind, c_size });
        ops.extend(tail);
    }
    if r.chance(1, 6) && !ops.is_empty() {
        let at = r.usize_below(ops.len().min(3) + 1);
        ops.insert(at, SdOp::HandOver);
    }
    if prop == "C13" && matches!(card.adversary, Adversary::FlipBits { .. }) && r.chance(1, 6) {
        // a card that refuses CRC_ON_OFF while the host was asked for CRC: whatever the driver then does, it must
        // not hand out a block whose CRC does not match
        card.cmd59_illegal = true;
        use_crc = true;
    }
    SdCase { card, use_crc, acquire_retries, ops, bus_fail_at }
}

struct Rig {
    card: Rc<RefCell<SimCard>>,
    bus: Rc<RefCell<BusState>>,
    ns: Rc<Cell<u64>>,
    drv: SdCard<SimSpi, SimDelay>,
}

fn rig(case: &SdCase) -> Rig {
    let card = Rc::new(RefCell::new(SimCard::new(case.card.clone())));
    let bus = Rc::new(RefCell::new(BusState { transactions: 0, fail_at: case.bus_fail_at, failed: 0, byte_cap: u64::MAX }));
    let ns = Rc::new(Cell::new(0u64));
    let spi = SimSpi { card: card.clone(), bus: bus.clone() };
    let delay = SimDelay { ns: ns.clone() };
    let drv = SdCard::new_with_options(spi, delay, AcquireOpts { use_crc: case.use_crc, acquire_retries: case.acquire_retries });
    Rig { card, bus, ns, drv }
}

/// Upper bound on bytes one driver call may exchange, from the driver's published retry
/// constants: command/read budgets 10 000, write budget 50 000, acquire_retries, 255 flush bytes.
pub fn byte_bound(acquire_retries: u32, nblocks: u64) -> u64 {
    let cmd = 10_001 + 6 + 2 + 10_001; // wait-not-busy + frame + stuff + response polls
    let acquire = (acquire_retries as u64 + 1) * (cmd + 255) + cmd + 10_001 * (cmd + 4) + 10_001 * 2 * cmd + cmd + 4 + 1;
    let transfer = 3 * cmd + nblocks * (50_001 + 10_001 + 1 + 512 + 2 + 1) + 50_001 + cmd + 2;
    acquire + transfer
}

#[derive(Debug)]
enum CallRes {
    Ok,
    Err(String),
    Panic(String),
    Hang,
}

fn classify<T>(r: std::thread::Result<Result<T, embedded_sdmmc::SdCardError>>) -> (CallRes, Option<T>) {
    match r {
        Ok(Ok(v)) => (CallRes::Ok, Some(v)),
        Ok(Err(e)) => (CallRes::Err(format!("{:?}", e)), None),
        Err(p) => {
            if p.downcast_ref::<BusHang>().is_some() {
                (CallRes::Hang, None)
            } else {
                let msg = if let Some(s) = p.downcast_ref::<&str>() { s.to_string() } else if let Some(s) = p.downcast_ref::<String>() { s.clone() } else { "panic".into() };
                (CallRes::Panic(format!("{} @ {}", msg, crate::last_panic_location())), None)
            }
        }
    }
}

fn norm(msg: &str) -> String {
    // strip numbers (decimal and 0x..) so that signatures are stable classes
    let mut out = String::new();
    let cs: Vec<char> = msg.chars().collect();
    let mut i = 0;
    while i < cs.len() {
        if cs[i] == '0' && i + 1 < cs.len() && cs[i + 1] == 'x' {
            i += 2;
            while i < cs.len() && cs[i].is_ascii_hexdigit() {
                i += 1;
            }
            out.push('#');
        } else if cs[i].is_ascii_digit() {
            while i < cs.len() && cs[i].is_ascii_digit() {
                i += 1;
            }
            out.push('#');
        } else {
            out.push(cs[i]);
            i += 1;
        }
    }
    out.chars().take(70).collect()
}

pub fn sd_eval(prop: &'static str, case: &SdCase) -> CaseOutcome {
    let mut out = CaseOutcome::default();
    out.case = serde_json::to_value(case).unwrap();
    out.evaluations = 1;
    let mut probes = Probes::default();
    let mut viols: Vec<Violation> = Vec::new();
    let mut rg = rig(case);
    let mut cap = case.card.capacity_blocks();
    // the card in the slot (a Swap operation replaces it)
    let mut cur = case.card.clone();
    let mut twin: BTreeMap<u64, [u8; 512]> = BTreeMap::new();
    let expect_block = |twin: &BTreeMap<u64, [u8; 512]>, b: u64| twin.get(&b).copied().unwrap_or_else(|| default_fill(b));
    let crc_refused = case.card.cmd59_illegal && case.use_crc;
    let adversarial = case.card.adversary != Adversary::None || case.bus_fail_at.is_some() || crc_refused;
    let unreliable_answers = matches!(case.card.adversary, Adversary::GarbageFrom(_) | Adversary::BusyFrom(_));
    let wire_altered0 = matches!(case.card.adversary, Adversary::SwapCrc { .. } | Adversary::StuckHigh { .. } | Adversary::FlipBits { .. } | Adversary::SilentFrom(_) | Adversary::BusyFrom(_) | Adversary::GarbageFrom(_) | Adversary::ConstFrom(..));
    let mut h = 0xcbf29ce484222325u64;
    let mut failed_once = false;
    let mut init_failed_last = false;
    // does the driver believe the card is initialised (as far as the calls so far tell)
    let mut driver_init = false;
    let mut post_fault_calls = false;
    let mut push = |prop: &'static str, oracle: &str, disc: &str, detail: String, i: usize| {
        if viols.len() < 8 {
            viols.push(Violation { prop, oracle: oracle.into(), disc: disc.into(), detail, op_idx: i });
        }
    };
    for (i, op) in case.ops.iter().enumerate() {
        let nblk = match op {
            SdOp::Read { n, .. } | SdOp::Write { n, .. } => *n as u64,
            _ => 1,
        };
        let start_bytes = rg.card.borrow().bytes;
        let bound = byte_bound(case.acquire_retries, nblk);
        rg.bus.borrow_mut().byte_cap = start_bytes + bound;
        let fired_before = rg.card.borrow().adversary_fired + rg.bus.borrow().failed;
        let cmds_before = rg.card.borrow().commands.len();
        let sent_before = rg.card.borrow().blocks_sent;
        let opk = match op {
            SdOp::Read { n, .. } => if *n == 1 { "read" } else { "read_multi" },
            SdOp::Write { n, .. } => if *n == 1 { "write" } else { "write_multi" },
            SdOp::NumBlocks => "num_blocks",
            SdOp::NumBytes => "num_bytes",
            SdOp::CardType => "get_card_type",
            SdOp::MarkUninit => "mark_card_uninit",
            SdOp::Swap { .. } => "swap_card",
            SdOp::HandOver => "hand_over",
        };
        let mut res = CallRes::Ok;
        match op {
            SdOp::MarkUninit => {
                rg.drv.mark_card_uninit();
                probes.hit("mark_card_uninit");
            }
            SdOp::Swap { kind, c_size } => {
                cur = swapped(&cur, *kind, *c_size);
                rg.card.borrow_mut().swap(cur.clone());
                rg.drv.mark_card_uninit();
                cap = cur.capacity_blocks();
                twin.clear();
                probes.hit("card_swapped");
            }
            SdOp::HandOver => {
                let r = std::panic::catch_unwind(std::panic::AssertUnwindSafe(|| Ok::<_, embedded_sdmmc::SdCardError>(rg.drv.get_card_type())));
                let (cr, v) = classify(r);
                res = cr;
                match v {
                    Some(Some(t)) => {
                        let spi = SimSpi { card: rg.card.clone(), bus: rg.bus.clone() };
                        let delay = SimDelay { ns: rg.ns.clone() };
                        let d = SdCard::new_with_options(spi, delay, AcquireOpts { use_crc: case.use_crc, acquire_retries: case.acquire_retries });
                        // the documented hand-over of an already initialised card to another driver object
                        unsafe { d.mark_card_as_init(t) };
                        rg.drv = d;
                        probes.hit("handed_over_with_mark_card_as_init");
                    }
                    Some(None) => res = CallRes::Err("init failed".into()),
                    None => {}
                }
            }
            SdOp::CardType => {
                let r = std::panic::catch_unwind(std::panic::AssertUnwindSafe(|| Ok::<_, embedded_sdmmc::SdCardError>(rg.drv.get_card_type())));
                let (cr, v) = classify(r);
                res = cr;
                if let Some(t) = v {
                    let want = match cur.kind {
                        CardKind::V1Sc => CardType::SD1,
                        CardKind::V2Sc => CardType::SD2,
                        CardKind::V2Hc => CardType::SDHC,
                    };
                    match t {
                        Some(t) if t == want => probes.hit("card_kind_identified"),
                        Some(t) => {
                            if !unreliable_answers {
                                push("C12", "card-kind", &format!("{:?}-as-{:?}", cur.kind, t), String::new(), i)
                            }
                        }
                        None => res = CallRes::Err("init failed".into()),
                    }
                }
            }
            SdOp::NumBlocks => {
                let r = std::panic::catch_unwind(std::panic::AssertUnwindSafe(|| (&rg.drv).num_blocks()));
                let (cr, v) = classify(r);
                res = cr;
                if let Some(b) = v {
                    let chance_crc = matches!(case.card.adversary, Adversary::SilentFrom(_) | Adversary::StuckHigh { .. });
                    if b.0 as u64 != cap && !unreliable_answers && !chance_crc && (case.use_crc || !wire_altered0) {
                        push("C12", "capacity-blocks", &format!("{:?}", cur.kind), format!("driver {} blocks, CSD says {} (c_size {}, mult {}, read_bl_len {})", b.0, cap, cur.c_size, cur.c_size_mult, cur.read_bl_len), i);
                    } else {
                        probes.hit("capacity_checked");
                    }
                }
            }
            SdOp::NumBytes => {
                let r = std::panic::catch_unwind(std::panic::AssertUnwindSafe(|| rg.drv.num_bytes()));
                let (cr, v) = classify(r);
                res = cr;
                if let Some(b) = v {
                    let chance_crc = matches!(case.card.adversary, Adversary::SilentFrom(_) | Adversary::StuckHigh { .. });
                    if b != cap * 512 && !unreliable_answers && !chance_crc && (case.use_crc || !wire_altered0) {
                        push("C12", "capacity-bytes", &format!("{:?}", cur.kind), format!("driver {} bytes, CSD says {}", b, cap * 512), i);
                    }
                }
            }
            SdOp::Read { block, n } => {
                let mut bufs: Vec<Block> = (0..*n).map(|_| Block::new()).collect();
                let r = std::panic::catch_unwind(std::panic::AssertUnwindSafe(|| (&rg.drv).read(&mut bufs, BlockIdx(*block as u32))));
                let (cr, v) = classify(r);
                res = cr;
                let in_range = *block + *n as u64 <= cap;
                if v.is_some() {
                    if !in_range {
                        push("C12", "out-of-range-read-ok", "", format!("block {} n {} capacity {}", block, n, cap), i);
                    }
                    // with CRC on, Ok means every block's CRC matched: the data must be the card's
                    // without CRC nothing lets the driver notice bytes altered on the wire: nothing is demanded then
                    let wire_altered = matches!(case.card.adversary, Adversary::SwapCrc { .. } | Adversary::StuckHigh { .. } | Adversary::FlipBits { .. } | Adversary::SilentFrom(_) | Adversary::BusyFrom(_) | Adversary::GarbageFrom(_) | Adversary::ConstFrom(..));
                    let judge_data = !unreliable_answers && (case.use_crc || !wire_altered) && !rg.card.borrow().corruption_undetectable;
                    if judge_data && in_range {
                        for (k, b) in bufs.iter().enumerate() {
                            if b.contents != expect_block(&twin, *block + k as u64) {
                                // a line that reads all ones from some byte on delivers 0xFFFF as the CRC: when the bytes the
                                // driver got happen to have that CRC, nothing lets it notice (the statement demands an error
                                // only for corruption the CRC can detect)
                                let wire_ones = matches!(case.card.adversary, Adversary::SilentFrom(_) | Adversary::StuckHigh { .. });
                                if wire_ones && case.use_crc && crc16_bits(&b.contents) == 0xFFFF {
                                    probes.hit("corruption_whose_crc_matches_by_chance_accepted");
                                    continue;
                                }
                                let p = if adversarial { "C13" } else { "C12" };
                                push(p, if adversarial { "corrupted-data-returned-as-good" } else { "read-data" }, &format!("{}:{:?}:crc{}", opk, cur.kind, case.use_crc as u8), format!("block {} (+{}) differs from card memory", block, k), i);
                                break;
                            }
                        }
                        probes.hit(if *n == 1 { "single_block_read_ok" } else { "multi_block_read_ok" });
                    }
                }
            }
            SdOp::Write { block, n, seed } => {
                let data = payload(*seed, *n as usize * 512);
                let bufs: Vec<Block> = (0..*n as usize)
                    .map(|k| {
                        let mut b = Block::new();
                        b.contents.copy_from_slice(&data[k * 512..k * 512 + 512]);
                        b
                    })
                    .collect();
                let r = std::panic::catch_unwind(std::panic::AssertUnwindSafe(|| (&rg.drv).write(&bufs, BlockIdx(*block as u32))));
                let (cr, v) = classify(r);
                res = cr;
                let in_range = *block + *n as u64 <= cap;
                if v.is_some() && in_range {
                    for k in 0..*n as u64 {
                        twin.insert(*block + k, bufs[k as usize].contents);
                    }
                    probes.hit(if *n == 1 { "single_block_write_ok" } else { "multi_block_write_ok" });
                } else if in_range {
                    // a failed write leaves the addressed blocks in an unspecified state (old, new or a
                    // half-transferred block): take them from the card; everything else must be untouched
                    for k in 0..*n as u64 {
                        let c = rg.card.borrow();
                        if let Some(b) = c.mem.get(&(*block + k)) {
                            twin.insert(*block + k, *b);
                        }
                    }
                }
                // memory: exactly the addressed blocks hold the data, nothing else changed (a card that
                // misbehaves on the wire may do anything to its own memory)
                if !unreliable_answers && !wire_altered0 {
                    let c = rg.card.borrow();
                    for (k, v) in c.mem.iter() {
                        if twin.get(k) != Some(v) {
                            let p = if adversarial { "C13" } else { "C12" };
                            push(p, "card-memory-differs", &format!("{}:{:?}", opk, cur.kind), format!("block {} of the card differs from what the calls so far should have stored", k), i);
                            break;
                        }
                    }
                    if matches!(res, CallRes::Ok) {
                        for (k, v) in twin.iter() {
                            if c.mem.get(k) != Some(v) {
                                push(if adversarial { "C13" } else { "C12" }, "write-not-stored", &format!("{}:{:?}", opk, cur.kind), format!("block {} not on the card after Ok", k), i);
                                break;
                            }
                        }
                    }
                }
            }
        }
        let used = rg.card.borrow().bytes - start_bytes;
        let fired_now = rg.card.borrow().adversary_fired + rg.bus.borrow().failed;
        let fired_in_call = fired_now > fired_before;
        crate::rng::fnv_add(&mut h, format!("{}:{:?}:{}", opk, matches!(res, CallRes::Ok), used).as_bytes());
        match &res {
            CallRes::Hang => {
                push("C13", "unbounded-bus-traffic", opk, format!("more than {} bytes exchanged in one call ({:?})", bound, case.card.adversary), i);
                break;
            }
            CallRes::Panic(m) => {
                let p = if adversarial { "C13" } else { "C12" };
                push(p, "panic", &format!("{}:{}", opk, norm(m)), m.clone(), i);
                break;
            }
            CallRes::Err(e) => {
                if post_fault_calls && fired_now == fired_before {
                    let in_range = match op {
                        SdOp::Read { block, n } | SdOp::Write { block, n, .. } => *block + *n as u64 <= cap,
                        _ => true,
                    };
                    if in_range {
                        push("C13", "call-fails-after-the-fault-has-passed", &format!("{}:{}", opk, norm(e)), format!("{} (the one-off fault fired in an earlier call; the card is healthy)", e), i);
                        break;
                    }
                }
                if !adversarial {
                    let in_range = match op {
                        SdOp::Read { block, n } | SdOp::Write { block, n, .. } => *block + *n as u64 <= cap,
                        _ => true,
                    };
                    if in_range {
                        push("C12", "call-failed-on-a-healthy-card", &format!("{}:{:?}:crc{}", opk, cur.kind, case.use_crc as u8), format!("{} ({} bytes on the bus, slow={})", e, used, cur.slow), i);
                        break;
                    }
                }
                failed_once = true;
                let c = rg.card.borrow();
                let data_cmd_seen = c.commands[cmds_before..].iter().any(|c| matches!(c, 9 | 13 | 17 | 18 | 23 | 24 | 25));
                // errors only the identification sequence produces
                let acquire_only = e.starts_with("CardNotFound") || e.starts_with("CantEnableCRC") || e.starts_with("TimeoutACommand") || e.starts_with("Cmd58Error") || e.starts_with("TimeoutCommand(0)") || e.starts_with("TimeoutCommand(8)") || e.starts_with("TimeoutCommand(55)") || e.starts_with("TimeoutCommand(58)") || e.starts_with("TimeoutCommand(59)") || e == "init failed";
                init_failed_last = !driver_init && !data_cmd_seen && acquire_only && !c.is_initialised();
                if data_cmd_seen {
                    driver_init = true;
                }
            }
            CallRes::Ok => {
                // C13: faults that must surface as errors
                if fired_in_call {
                    let c = rg.card.borrow();
                    match &case.card.adversary {
                        Adversary::RejectWrite { .. } => push("C13", "rejected-write-reported-ok", opk, format!("{:?}", case.card.adversary), i),
                        Adversary::Cmd13Error { .. } if opk == "write" => push("C13", "status-error-after-write-ignored", opk, format!("{:?}", case.card.adversary), i),
                        Adversary::BadToken { token, .. } if *token != 0xFF && matches!(op, SdOp::Read { .. } | SdOp::NumBlocks | SdOp::NumBytes) => push("C13", "bad-token-accepted", opk, format!("{:#04x}", token), i),
                        Adversary::StuckHigh { from, .. } if case.use_crc && !c.corruption_undetectable && matches!(op, SdOp::Read { .. } | SdOp::NumBlocks | SdOp::NumBytes) => {
                            push("C13", "crc-mismatch-accepted", &format!("{}:stuck-high", opk), format!("the data line read 0xFF from byte {} of a block through its CRC, CRC on, call returned Ok", from), i);
                        }
                        Adversary::SwapCrc { .. } if case.use_crc && matches!(op, SdOp::Read { .. } | SdOp::NumBlocks | SdOp::NumBytes) => {
                            push("C13", "crc-mismatch-accepted", &format!("{}:swapped-crc-bytes", opk), "the two CRC bytes of a block arrived exchanged (and differ), CRC on, call returned Ok".to_string(), i);
                        }
                        Adversary::FlipBits { bits, .. } if case.use_crc && matches!(op, SdOp::Read { .. } | SdOp::NumBlocks | SdOp::NumBytes) => {
                            // was the corruption one the CRC can see? recompute over what was sent
                            let _ = (&c, bits, sent_before);
                            // any burst <= 16 bits and any 1- or 2-bit error in 4112 bits is detectable by CRC-16-CCITT
                            push("C13", "crc-mismatch-accepted", &format!("{}:{}bits", opk, bits.len().min(3)), format!("bits {:?} of a data block were flipped, CRC on, call returned Ok", bits), i);
                        }
                        _ => {}
                    }
                    if case.bus_fail_at.is_some() && rg.bus.borrow().failed > 0 && fired_now - fired_before > 0 && case.card.adversary == Adversary::None {
                        push("C13", "bus-error-swallowed", opk, String::new(), i);
                    }
                }
                // the CRC mode the caller asked for is the card's mode whenever a data command went through
                // (CMD0 switches the card's checking off: every identification has to switch it on again)
                if case.use_crc && matches!(op, SdOp::Read { .. } | SdOp::Write { .. } | SdOp::NumBlocks | SdOp::NumBytes) {
                    let c = rg.card.borrow();
                    if c.is_initialised() && !c.crc_checking() && !unreliable_answers {
                        push(if adversarial { "C13" } else { "C12" }, "crc-requested-but-card-not-checking", opk, "the driver was created with CRC on, the call succeeded, but the card is in CRC-off mode (no CMD59 since its last CMD0)".to_string(), i);
                    }
                }
                if !matches!(op, SdOp::MarkUninit | SdOp::Swap { .. }) {
                    init_failed_last = false;
                    driver_init = true;
                } else {
                    driver_init = false;
                }
            }
        }
        if !matches!(res, CallRes::Ok) {
            // a host that re-initialises after a failed call has no better option than CMD0, busy or not
            rg.card.borrow_mut().strict_cmd0 = false;
        }
        let transient = matches!(case.card.adversary, Adversary::SwapCrc { .. } | Adversary::StuckHigh { .. } | Adversary::FlipBits { .. } | Adversary::BadToken { .. } | Adversary::RejectWrite { .. } | Adversary::Cmd13Error { .. } | Adversary::Cmd55Damaged { .. } | Adversary::AcmdDamaged { .. } | Adversary::Cmd8Damaged { .. }) && case.bus_fail_at.is_none();
        if matches!(res, CallRes::Err(_)) && adversarial && transient {
            // a one-off fault: the card is healthy and in a defined state; the calls that follow must be a
            // legal conversation and must work (judged by the ordinary oracles below and by the checker)
            probes.hit("call_failed_under_transient_fault_session_continues");
            if rg.card.borrow().adversary_fired > 0 {
                post_fault_calls = true;
            }
            continue;
        }
        if matches!(res, CallRes::Err(_)) && adversarial {
            probes.hit("call_failed_under_adversary");
            if init_failed_last {
                probes.hit("initialisation_failed_under_adversary");
            }
            // ---- recovery (C13): the card responds again
            rg.card.borrow_mut().power_cycle();
            rg.bus.borrow_mut().fail_at = None;
            if init_failed_last {
                // (i) a failed initialisation left the driver uninitialised: the next call re-identifies by itself
                rg.card.borrow_mut().first_cmd_after_mark = None;
                let s = rg.card.borrow().bytes;
                rg.bus.borrow_mut().byte_cap = s + byte_bound(case.acquire_retries, 1);
                let mut b = [Block::new()];
                let r = std::panic::catch_unwind(std::panic::AssertUnwindSafe(|| (&rg.drv).read(&mut b, BlockIdx(0))));
                let (cr, _) = classify(r);
                let first = rg.card.borrow().first_cmd_after_mark;
                if first != Some(0) {
                    push("C13", "failed-init-not-marked-uninitialised", "", format!("first command after a failed initialisation was {:?}, not CMD0", first), i);
                } else if !matches!(cr, CallRes::Ok) {
                    push("C13", "no-recovery-after-failed-init", &norm(&format!("{:?}", cr)), format!("{:?}", cr), i);
                } else if b[0].contents != expect_block(&twin, 0) {
                    push("C13", "wrong-data-after-recovery", "", String::new(), i);
                } else {
                    probes.hit("recovered_after_failed_init_without_mark");
                }
            } else {
                // (ii) after any failure: mark uninitialised, then read and write must work and be right
                rg.drv.mark_card_uninit();
                let s = rg.card.borrow().bytes;
                rg.bus.borrow_mut().byte_cap = s + byte_bound(case.acquire_retries, 2);
                let blk = cap.saturating_sub(1).min(3);
                let mut b = [Block::new()];
                let r = std::panic::catch_unwind(std::panic::AssertUnwindSafe(|| (&rg.drv).read(&mut b, BlockIdx(blk as u32))));
                let (cr, _) = classify(r);
                if !matches!(cr, CallRes::Ok) {
                    push("C13", "no-recovery-after-mark-uninit", &norm(&format!("read:{:?}", cr)), format!("{:?}", cr), i);
                } else if b[0].contents != rg.card.borrow().block(blk) {
                    push("C13", "wrong-data-after-recovery", "", String::new(), i);
                } else {
                    let mut w = Block::new();
                    w.contents.copy_from_slice(&payload(0xABCD, 512));
                    let r = std::panic::catch_unwind(std::panic::AssertUnwindSafe(|| (&rg.drv).write(&[w.clone()], BlockIdx(blk as u32))));
                    let (cr, _) = classify(r);
                    if !matches!(cr, CallRes::Ok) || rg.card.borrow().block(blk) != w.contents {
                        push("C13", "no-recovery-after-mark-uninit", &norm(&format!("write:{:?}", cr)), format!("{:?}", cr), i);
                    } else {
                        probes.hit("recovered_after_mark_uninit");
                    }
                }
            }
            // the rest of the history would run against a reset twin; one fault per run is the plan
            break;
        }
    }
    // ---- C14: what the checker inside the card saw
    {
        let c = rg.card.borrow();
        let judge = !unreliable_answers;
        if judge {
            for e in &c.protocol_errors {
                push("C14", "illegal-conversation", &norm(e), format!("{}{}", e, if failed_once { " (after an error was injected)" } else { "" }), 0);
            }
        }
        if c.multi_reads > 0 {
            probes.hit("multi_block_read_on_the_bus");
        }
        if c.multi_writes > 0 {
            probes.hit("multi_block_write_on_the_bus");
        }
        if c.latency_hist[3] > 0 {
            probes.hit("latency_close_to_driver_budget");
        }
        probes.add("commands_on_the_bus", c.commands.len() as u64);
        if std::env::var("VERIF_SD_TRACE").is_ok() {
            eprintln!("commands: {:?}\nerrors: {:?}\nbytes {}", c.commands, c.protocol_errors, c.bytes);
        }
        out.dev_calls = c.bytes;
        out.sim_seconds = rg.ns.get() / 1_000_000_000;
        for (k, n) in [("flip_bits", matches!(case.card.adversary, Adversary::FlipBits { .. })), ("silent", matches!(case.card.adversary, Adversary::SilentFrom(_))), ("busy_forever", matches!(case.card.adversary, Adversary::BusyFrom(_))), ("garbage", matches!(case.card.adversary, Adversary::GarbageFrom(_) | Adversary::ConstFrom(..))), ("reject_write", matches!(case.card.adversary, Adversary::RejectWrite { .. })), ("cmd13_error", matches!(case.card.adversary, Adversary::Cmd13Error { .. })), ("bad_token", matches!(case.card.adversary, Adversary::BadToken { .. })), ("too_slow", matches!(case.card.adversary, Adversary::TooSlow)), ("stuck_high", matches!(case.card.adversary, Adversary::StuckHigh { .. })), ("cmd8_bad_echo", case.card.adversary == Adversary::Cmd8BadEcho), ("cmd55_illegal", case.card.adversary == Adversary::Cmd55Illegal), ("swapped_crc_bytes", matches!(case.card.adversary, Adversary::SwapCrc { .. })), ("every_command_crc_error", case.card.adversary == Adversary::AlwaysCrcError), ("cmd55_frame_damaged", matches!(case.card.adversary, Adversary::Cmd55Damaged { .. })), ("application_command_frame_damaged", matches!(case.card.adversary, Adversary::AcmdDamaged { .. })), ("cmd8_frame_damaged", matches!(case.card.adversary, Adversary::Cmd8Damaged { .. })), ("constant_byte_for_ever", matches!(case.card.adversary, Adversary::ConstFrom(..)))] {
            if n && c.adversary_fired > 0 {
                *out.faults.entry(k.to_string()).or_insert(0) += 1;
            }
        }
        if rg.bus.borrow().failed > 0 {
            *out.faults.entry("spi_bus_error".to_string()).or_insert(0) += 1;
        }
        crate::rng::fnv_add(&mut h, &c.bytes.to_le_bytes());
        crate::rng::fnv_add(&mut h, &c.commands);
        out.nontrivial = c.commands.len() > 4 && (prop != "C13" || c.adversary_fired > 0 || rg.bus.borrow().failed > 0);
    }
    let _ = crc16_bits;
    out.ev_hash = h;
    out.probes = probes;
    out.viols = viols;
    out.api_calls = case.ops.len() as u64;
    out
}

pub fn sd_case(prop: &'static str, seed: u64) -> CaseOutcome {
    if (prop == "C12" || prop == "C14") && seed % 8 == 0 {
        return fullstack_eval(&fullstack_gen(seed));
    }
    let c = gen_case(prop, seed);
    sd_eval(prop, &c)
}

pub fn sd_replay(prop: &'static str, v: &serde_json::Value) -> Result<CaseOutcome, String> {
    if let Some(fs) = v.get("full_stack") {
        let c: FullStackCase = serde_json::from_value(fs.clone()).map_err(|e| e.to_string())?;
        return Ok(fullstack_eval(&c));
    }
    let c: SdCase = serde_json::from_value(v.clone()).map_err(|e| e.to_string())?;
    Ok(sd_eval(prop, &c))
}

pub fn sd_minimise(prop: &'static str, v: &serde_json::Value, sig: &str) -> serde_json::Value {
    if v.get("full_stack").is_some() {
        return v.clone();
    }
    let mut best: SdCase = match serde_json::from_value(v.clone()) {
        Ok(c) => c,
        Err(_) => return v.clone(),
    };
    let test = |c: &SdCase| sd_eval(prop, c).viols.iter().any(|x| x.prop == prop && x.signature() == sig);
    let mut i = 0;
    while i < best.ops.len() {
        let mut c = best.clone();
        c.ops.remove(i);
        if test(&c) {
            best = c;
        } else {
            i += 1;
        }
    }
    for f in [|c: &mut SdCase| c.card.slow = false, |c: &mut SdCase| c.card.acmd41_rounds = 1, |c: &mut SdCase| c.card.cmd0_bad_answers = 0, |c: &mut SdCase| c.card.gap_after_stop = false, |c: &mut SdCase| c.acquire_retries = 50] {
        let mut c = best.clone();
        f(&mut c);
        if test(&c) {
            best = c;
        }
    }
    serde_json::to_value(&best).unwrap()
}

// ---------------------------------------------------------------------------------------------
// Full stack (C12): one file-system history on VolumeManager<SimDisk> and on
// VolumeManager<SdCard<SimSpi, SimDelay>> over a card preloaded with the same formatted image.

use crate::clock::SimClock;
use crate::disk::{DiskError, SimDisk};
use crate::fs::make_fs;
use crate::ops::Scenario;

pub struct SdAsDisk(pub SdCard<SimSpi, SimDelay>);

impl BlockDevice for SdAsDisk {
    type Error = DiskError;
    fn read(&self, blocks: &mut [Block], start: BlockIdx) -> Result<(), DiskError> {
        self.0.read(blocks, start).map_err(|_| DiskError::Injected)
    }
    fn write(&self, blocks: &[Block], start: BlockIdx) -> Result<(), DiskError> {
        self.0.write(blocks, start).map_err(|_| DiskError::Injected)
    }
    fn num_blocks(&self) -> Result<embedded_sdmmc::BlockCount, DiskError> {
        self.0.num_blocks().map_err(|_| DiskError::Injected)
    }
}

#[derive(Serialize, Deserialize, Clone, Debug)]
pub struct FullStackCase {
    pub scenario: Scenario,
    pub card: CardCfg,
    pub use_crc: bool,
}

pub fn fullstack_gen(seed: u64) -> FullStackCase {
    // a history generated (and fully judged) on SimDisk first; its operation list is then replayed blind
    let mut rng = Rng::new(seed);
    let mut p = crate::gen::profile_for("small");
    p.max_vols = 1;
    p.max_len = 18;
    let mut header = crate::runner::gen_header(&mut rng, &p);
    header.dev.vols.truncate(1);
    header.dev.foreign_slot = None;
    let r = crate::runner::run(&header, crate::runner::Source::Generate { rng: rng.clone(), profile: p }, false, false);
    let sc = r.scenario;
    let (img, _) = crate::mkfs::build_device(&sc.dev);
    let blocks = img.num_blocks as u64;
    let mut card = gen_card(&mut rng, false);
    // make the card large enough for the image
    match card.kind {
        CardKind::V2Hc => card.c_size = ((blocks + 1023) / 1024) as u32 + rng.below(3) as u32,
        _ => {
            card.read_bl_len = 9;
            card.c_size_mult = 7;
            card.c_size = (((blocks + 511) / 512) as u32 + 1).min(4095);
            if card.capacity_blocks() < blocks {
                card.kind = CardKind::V2Hc;
                card.c_size = ((blocks + 1023) / 1024) as u32;
            }
        }
    }
    FullStackCase { scenario: sc, card, use_crc: rng.chance(1, 2) }
}

pub fn fullstack_eval(case: &FullStackCase) -> CaseOutcome {
    let mut out = CaseOutcome::default();
    out.case = serde_json::json!({ "full_stack": case });
    out.evaluations = 1;
    let mut probes = Probes::default();
    let mut viols: Vec<Violation> = Vec::new();
    let sc = &case.scenario;
    let nslots = sc.limits.0.max(sc.limits.1).max(sc.limits.2) + 2;
    // (a) reference: SimDisk
    let (img_a, _) = crate::mkfs::build_device(&sc.dev);
    let disk = SimDisk::new(img_a);
    let clock_a = SimClock::new(sc.clock0);
    let res_a = {
        let fs = make_fs(sc.limits, &disk, &clock_a, sc.id_offset);
        std::panic::catch_unwind(std::panic::AssertUnwindSafe(|| crate::blind::blind_exec(&*fs, &sc.ops, &clock_a, nslots)))
    };
    // (b) the same history through the SD driver
    let (img_b, _) = crate::mkfs::build_device(&sc.dev);
    let sdcase = SdCase { card: case.card.clone(), use_crc: case.use_crc, acquire_retries: 50, ops: vec![], bus_fail_at: None };
    let rg = rig(&sdcase);
    rg.card.borrow_mut().base = Some(img_b);
    let Rig { card, bus, ns: _ns, drv } = rg;
    bus.borrow_mut().byte_cap = 2_000_000_000;
    let clock_b = SimClock::new(sc.clock0);
    let res_b = {
        let fs = make_fs(sc.limits, SdAsDisk(drv), &clock_b, sc.id_offset);
        std::panic::catch_unwind(std::panic::AssertUnwindSafe(|| crate::blind::blind_exec(&*fs, &sc.ops, &clock_b, nslots)))
    };
    let mut h = 0xcbf29ce484222325u64;
    match (res_a, res_b) {
        (Ok(a), Ok(b)) => {
            for s in &a {
                crate::rng::fnv_add(&mut h, s.as_bytes());
            }
            if a != b {
                let i = a.iter().zip(b.iter()).position(|(x, y)| x != y).unwrap_or(a.len().min(b.len()));
                viols.push(Violation { prop: "C12", oracle: "full-stack-result-differs".into(), disc: a.get(i).map(|s| s.split(':').next().unwrap_or("").to_string()).unwrap_or_default(), detail: format!("call {}: on SimDisk {:?}, through the SD driver {:?}", i, a.get(i), b.get(i)), op_idx: i });
            }
            // medium: every block either side touched must be equal
            let c = card.borrow();
            let st = disk.st.borrow();
            let mut keys: std::collections::BTreeSet<u64> = c.mem.keys().copied().collect();
            for e in st.log.iter().filter(|e| e.write && e.applied) {
                keys.insert(e.block as u64);
            }
            for k in keys {
                if c.block(k) != st.image.get(k as u32) {
                    viols.push(Violation { prop: "C12", oracle: "full-stack-medium-differs".into(), disc: format!("{:?}", case.card.kind), detail: format!("block {} on the card differs from the reference device after the same history", k), op_idx: 0 });
                    break;
                }
            }
            probes.hit("full_stack_history");
            probes.add("full_stack_blocks_written", c.mem.len() as u64);
            for e in &c.protocol_errors {
                viols.push(Violation { prop: "C14", oracle: "illegal-conversation".into(), disc: norm(e), detail: e.clone(), op_idx: 0 });
            }
            out.dev_calls = c.bytes;
            out.nontrivial = c.mem.len() > 0;
        }
        (ra, rb) => {
            viols.push(Violation { prop: "C12", oracle: "full-stack-panic".into(), disc: String::new(), detail: format!("reference panicked: {}, driver side panicked: {} at {}", ra.is_err(), rb.is_err(), crate::last_panic_location()), op_idx: 0 });
        }
    }
    out.ev_hash = h;
    out.probes = probes;
    out.viols = viols;
    out.api_calls = sc.ops.len() as u64;
    out
}


// ---------------------------------------------------------------------------------------------
// Thorough tier of C13: every single-bit position of a data block + CRC (4112 positions), for the
// three card kinds, in a single-block read and in the middle block of a three-block read.
pub const ENUM_CASES: u64 = 4112 * 6;

pub fn enumerated_flip_case(i: u64) -> SdCase {
    let bit = (i % 4112) as u16;
    let variant = i / 4112;
    let kind = [CardKind::V1Sc, CardKind::V2Sc, CardKind::V2Hc][(variant % 3) as usize];
    let multi = variant / 3 == 1;
    let card = CardCfg {
        kind,
        c_size: if kind == CardKind::V2Hc { 10 } else { 100 },
        c_size_mult: 3,
        read_bl_len: 9,
        acmd41_rounds: 2,
        cmd0_bad_answers: 0,
        timing_seed: i,
        slow: false,
        gap_after_stop: i % 2 == 0,
        ocr_extra: 0,
        resp_hi: 7,
        cmd59_illegal: false,
        cmd0_ignored: 0,
        cmd8_bad_echoes: 0,
        cmd12_error_at_end: false,
        adversary: Adversary::FlipBits { block_no: if multi { 1 } else { 0 }, bits: vec![bit] },
    };
    let ops = if multi { vec![SdOp::Read { block: 5 + i % 50, n: 3 }, SdOp::Read { block: 5 + i % 50, n: 3 }, SdOp::Write { block: 2, n: 2, seed: i as u32 }] } else { vec![SdOp::Read { block: i % 200, n: 1 }, SdOp::Read { block: i % 200, n: 1 }] };
    SdCase { card, use_crc: true, acquire_retries: 50, ops, bus_fail_at: None }
}
