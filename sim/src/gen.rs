//! Workload generator: draws the next operation from the current (model) state.
//! Generation and execution are interleaved; the drawn operations are recorded so that
//! replay and minimisation work on explicit scenarios, never on seeds.

use crate::clock::MAX_SECS;
use crate::mkfs::Bias;
use crate::names::{sfn_to_string, INVALID_NAMES};
use crate::ops::Op;
use crate::rng::Rng;
use crate::world::*;

#[derive(Clone, Debug)]
pub struct Weights {
    pub open_volume: u32,
    pub close_volume: u32,
    pub open_root: u32,
    pub open_dir: u32,
    pub change_dir: u32,
    pub close_dir: u32,
    pub find: u32,
    pub iterate: u32,
    pub open_file: u32,
    pub close_file: u32,
    pub flush: u32,
    pub read: u32,
    pub write: u32,
    pub seek: u32,
    pub query: u32,
    pub delete: u32,
    pub mkdir: u32,
    pub has_open: u32,
    pub label: u32,
    pub stale: u32,
    pub clock: u32,
    pub checkpoint: u32,
}

#[derive(Clone, Debug)]
pub struct Profile {
    pub name: &'static str,
    pub bias: Bias,
    pub max_vols: usize,
    pub min_len: usize,
    pub max_len: usize,
    pub w: Weights,
    /// probability (percent) that an iterate carries a re-entrant call
    pub reent_pct: u64,
    /// percent of opens that use an invalid name
    pub invalid_pct: u64,
    /// prefer limit configurations with small tables
    pub small_limits: bool,
    /// big writes (multi-cluster) more often
    pub big_writes: bool,
    pub wrap_ids: bool,
}

pub fn base_weights() -> Weights {
    Weights {
        open_volume: 4,
        close_volume: 2,
        open_root: 6,
        open_dir: 8,
        change_dir: 2,
        close_dir: 5,
        find: 5,
        iterate: 5,
        open_file: 22,
        close_file: 12,
        flush: 6,
        read: 16,
        write: 22,
        seek: 14,
        query: 3,
        delete: 7,
        mkdir: 6,
        has_open: 2,
        label: 1,
        stale: 4,
        clock: 6,
        checkpoint: 2,
    }
}

pub fn profile_for(prop: &str) -> Profile {
    let mut p = Profile { name: "general", bias: Bias::General, max_vols: 3, min_len: 4, max_len: 40, w: base_weights(), reent_pct: 10, invalid_pct: 4, small_limits: false, big_writes: false, wrap_ids: false };
    match prop {
        "C01" => {
            p.name = "C01";
            p.w.read = 30;
            p.w.write = 30;
            p.w.seek = 25;
            p.w.delete = 3;
            p.w.mkdir = 2;
            p.big_writes = true;
        }
        "C02" => {
            p.name = "C02";
            p.w.checkpoint = 8;
            p.w.clock = 14;
            p.w.flush = 10;
            p.w.delete = 10;
            p.w.mkdir = 8;
        }
        "C03" | "C05" => {
            p.name = if prop == "C03" { "C03" } else { "C05" };
            p.bias = Bias::Space;
            p.w.write = 30;
            p.w.delete = 14;
            p.w.mkdir = 12;
            p.w.open_file = 26;
            p.w.read = 6;
            p.w.seek = 6;
            p.big_writes = true;
            p.max_len = 60;
        }
        "C04" => {
            p.name = "C04";
            p.bias = Bias::Space;
            p.w.write = 30;
            p.w.mkdir = 10;
            p.w.delete = 10;
            p.big_writes = true;
        }
        "C06" => {
            p.name = "C06";
            p.w.iterate = 20;
            p.w.find = 16;
            p.w.open_dir = 16;
            p.w.mkdir = 12;
            p.w.delete = 12;
        }
        "C07" => {
            p.name = "C07";
            p.w.open_file = 40;
            p.w.delete = 12;
            p.w.open_dir = 10;
            p.invalid_pct = 10;
        }
        "C08" => {
            p.name = "C08";
            p.small_limits = true;
            p.w.open_volume = 10;
            p.w.close_volume = 8;
            p.w.open_root = 14;
            p.w.open_dir = 12;
            p.w.close_dir = 10;
            p.w.stale = 16;
            p.w.has_open = 8;
            p.w.iterate = 14;
            p.reent_pct = 70;
            p.wrap_ids = true;
            p.w.change_dir = 5;
        }
        "C16" => {
            p.name = "C16";
            p.bias = Bias::Info;
            p.w.write = 28;
            p.w.delete = 12;
            p.w.mkdir = 10;
            p.w.close_volume = 6;
            p.w.open_volume = 8;
            p.w.flush = 10;
            p.max_vols = 2;
        }
        "small" | "crash09" | "fault11" => {
            p.name = "small";
            p.bias = Bias::Small;
            p.max_vols = 2;
            p.min_len = 8;
            p.max_len = 30;
            p.w.checkpoint = 0;
            p.w.stale = 1;
            p.w.has_open = 0;
            p.w.label = 0;
            p.w.query = 0;
            p.w.find = 1;
            p.w.iterate = 1;
            p.w.read = 3;
            p.w.seek = 6;
            p.w.open_file = 30;
            p.w.write = 30;
            p.w.delete = 12;
            p.w.mkdir = 10;
            p.w.close_file = 12;
            p.w.flush = 8;
            p.reent_pct = 0;
            p.invalid_pct = 1;
            if prop == "fault11" {
                // directory walks, lookups and listings matter as much as mutation here
                p.w.find = 10;
                p.w.iterate = 10;
                p.w.read = 12;
                p.w.open_dir = 12;
                p.w.close_volume = 4;
                p.w.label = 5;
                p.min_len = 4;
                p.max_len = 16;
            }
            if prop == "crash09" {
                // flush early and often, then keep working next to the flushed files
                p.w.flush = 16;
                p.w.close_file = 16;
                p.w.delete = 14;
                p.min_len = 12;
                p.max_len = 40;
            }
        }
        _ => {}
    }
    p
}

pub struct Gen {
    pub rng: Rng,
    pub p: Profile,
    pub fresh: u32,
    pub target_len: usize,
    pub secs: u64,
    /// scripted fill / delete / refill cycles (C05): (state, cycles left, writes after full)
    pub cycle: Option<(u8, u8, u8)>,
    /// scripted burst of creates in one directory (so that a directory grows and then fills its new cluster):
    /// number of files still to create once the burst starts
    pub burst_plan: Option<u8>,
    /// (dir slot, file slot, files left, phase)
    pub burst: Option<(u8, u8, u8, u8)>,
}

impl Gen {
    pub fn new(mut rng: Rng, mut p: Profile, clock0: u64) -> Gen {
        // swarm: knock out a random subset of the optional operation kinds
        let optional: [fn(&mut Weights) -> &mut u32; 12] = [
            |w| &mut w.change_dir,
            |w| &mut w.find,
            |w| &mut w.iterate,
            |w| &mut w.flush,
            |w| &mut w.seek,
            |w| &mut w.query,
            |w| &mut w.delete,
            |w| &mut w.mkdir,
            |w| &mut w.has_open,
            |w| &mut w.label,
            |w| &mut w.stale,
            |w| &mut w.clock,
        ];
        for f in optional.iter() {
            if rng.chance(1, 5) {
                *f(&mut p.w) = 0;
            }
        }
        let target_len = if rng.chance(3, 5) { rng.range(p.min_len as u64, ((p.min_len + p.max_len) / 2) as u64) as usize } else { rng.range(p.min_len as u64, p.max_len as u64) as usize };
        let cycle = if p.name == "C05" && rng.chance(1, 6) { Some((0u8, rng.range(3, 6) as u8, 0u8)) } else { None };
        let target_len = if cycle.is_some() { 400 } else { target_len };
        let burst_plan = if cycle.is_none() && matches!(p.name, "C02" | "C03" | "C06" | "crash09" | "small") && rng.chance(1, 30) { Some(*rng.pick(&[20u8, 40, 70])) } else { None };
        Gen { rng, p, fresh: 0, target_len, secs: clock0, cycle, burst_plan, burst: None }
    }

    fn fl(&mut self) -> u8 {
        *self.rng.pick(&[0u8, 0, 1, 2])
    }

    fn free_slot<H, I>(slots: &[HSlot<H, I>], rng: &mut Rng) -> Option<u8> {
        let free: Vec<u8> = (0..slots.len() as u8).filter(|&i| slots[i as usize].cur.is_none()).collect();
        if free.is_empty() {
            None
        } else {
            Some(*rng.pick(&free))
        }
    }
    fn used_slot<H, I>(slots: &[HSlot<H, I>], rng: &mut Rng) -> Option<u8> {
        let used: Vec<u8> = (0..slots.len() as u8).filter(|&i| slots[i as usize].cur.is_some()).collect();
        if used.is_empty() {
            None
        } else {
            Some(*rng.pick(&used))
        }
    }
    fn dead_slot<H, I>(slots: &[HSlot<H, I>], rng: &mut Rng) -> Option<u8> {
        let used: Vec<u8> = (0..slots.len() as u8).filter(|&i| slots[i as usize].cur.is_none() && slots[i as usize].dead.is_some()).collect();
        if used.is_empty() {
            None
        } else {
            Some(*rng.pick(&used))
        }
    }

    fn fresh_name(&mut self, dir: bool) -> String {
        self.fresh += 1;
        match self.rng.below(6) {
            0 => {
                if self.rng.chance(1, 3) {
                    // twins that differ in bit 5 of one character only ('^'/'~', '_'/0x7F, 0xC9/0xE9): different names
                    let k = self.rng.below(3);
                    return match self.rng.below(6) {
                        0 => format!("T^{}.X", k),
                        1 => format!("T~{}.X", k),
                        2 => format!("U_{}", k),
                        3 => format!("U\u{7f}{}", k),
                        4 if self.rng.chance(1, 2) => format!("M\u{dc}NCHEN{}.TXT", k),
                        4 => format!("\u{c9}{}.Q", k),
                        _ => format!("\u{e9}{}.Q", k),
                    };
                }
                format!("n{}.t", self.fresh)
            }
            1 => format!("NEW{:05}.DAT", self.fresh),
            2 if !dir => format!("X{}.", self.fresh),
            3 => {
                if self.rng.chance(1, 3) {
                    // first character 0xE5: stored as 0x05 (a stored 0xE5 would mark the slot deleted)
                    format!("\u{e5}{}.TXT", self.fresh)
                } else {
                    format!("\u{c9}T\u{c9}{}.TXT", self.fresh)
                }
            }
            _ => {
                if dir {
                    format!("D{}", self.fresh)
                } else {
                    format!("W{}.BIN", self.fresh)
                }
            }
        }
    }

    /// pick a name for an operation on directory (vol, dir): existing file / dir / fresh / invalid
    fn pick_name(&mut self, w: &World, vol: usize, dir: u32, want: u8) -> String {
        // want: 0 any existing, 1 file, 2 dir, 3 fresh
        let d = &w.vols[vol].dirs[&dir];
        if self.rng.below(100) < self.p.invalid_pct {
            return self.rng.pick(INVALID_NAMES).to_string();
        }
        let mut files: Vec<String> = Vec::new();
        let mut dirs: Vec<String> = Vec::new();
        for (n, node) in &d.entries {
            if let Some(s) = sfn_to_string(n) {
                match node {
                    MNode::File(f) => {
                        // keep huge ballast files out of the hot path
                        let big = matches!(f.data, Content::Lazy(sz) if sz > 300_000);
                        if !big {
                            files.push(s)
                        }
                    }
                    MNode::Dir(_) => dirs.push(s),
                    MNode::Other => {}
                }
            }
        }
        if d.parent.is_some() {
            dirs.push("..".into());
        }
        dirs.push(".".into());
        let lower = self.rng.chance(1, 6);
        let pickf = |r: &mut Rng, v: &Vec<String>| -> Option<String> {
            if v.is_empty() {
                None
            } else {
                Some(r.pick(v).clone())
            }
        };
        let s = match want {
            1 => pickf(&mut self.rng, &files),
            2 => pickf(&mut self.rng, &dirs),
            0 => {
                if self.rng.chance(1, 4) {
                    pickf(&mut self.rng, &dirs)
                } else {
                    pickf(&mut self.rng, &files)
                }
            }
            _ => None,
        };
        match s {
            Some(s) => {
                if lower {
                    s.to_ascii_lowercase()
                } else {
                    s
                }
            }
            None => self.fresh_name(want == 2),
        }
    }

    /// fill to exactly full, one write too many, close, delete, again (slots 0 of each kind)
    fn next_cycle(&mut self, w: &World) -> Option<Op> {
        let (st, left, extra) = self.cycle?;
        let vol0 = 0usize;
        match st {
            0 => {
                self.cycle = Some((1, left, 0));
                Some(Op::OpenVolume { vs: 0, idx: w.vols[vol0].mbr_slot, fl: 0 })
            }
            1 => {
                self.cycle = Some((2, left, 0));
                Some(Op::OpenRoot { vs: 0, ds: 0, fl: 0 })
            }
            2 => {
                if left == 0 || w.dslots[0].cur.is_none() {
                    self.cycle = None;
                    self.target_len = 0;
                    return Some(Op::Checkpoint);
                }
                self.cycle = Some((3, left, 0));
                Some(Op::OpenFile { ds: 0, name: format!("CYC{}.DAT", left), mode: 4, fs: 0, fl: 0 })
            }
            3 => {
                if w.fslots[0].cur.is_none() {
                    // the create itself failed (root full ...): give up the script
                    self.cycle = None;
                    self.target_len = 0;
                    return Some(Op::Checkpoint);
                }
                let cb = w.vols[vol0].geom.cluster_bytes();
                let free = w.free_clusters(vol0);
                if free == 0 {
                    if extra >= 1 {
                        self.cycle = Some((4, left, 0));
                    } else {
                        self.cycle = Some((3, left, extra + 1));
                    }
                    // one write too many: must be refused, everything written so far must stay readable
                    return Some(Op::Write { fs: 0, len: self.rng.range(1, cb as u64) as u32, seed: self.rng.next_u32(), fl: 0 });
                }
                if free > 200 || cb as u64 * free as u64 > 3_000_000 {
                    // not a nearly-full volume: the cycle would take too long
                    self.cycle = None;
                    self.target_len = 0;
                    return Some(Op::Checkpoint);
                }
                let take = (self.rng.range(1, free.min(6) as u64) as u32) * cb - if self.rng.chance(1, 3) { self.rng.range(0, cb as u64 - 1) as u32 } else { 0 };
                Some(Op::Write { fs: 0, len: take.max(1), seed: self.rng.next_u32(), fl: 0 })
            }
            4 => {
                self.cycle = Some((5, left, 0));
                Some(Op::CloseFile { fs: 0, fl: 0 })
            }
            _ => {
                self.cycle = Some((2, left - 1, 0));
                if self.rng.chance(1, 3) {
                    // truncate instead of delete, now and then
                    Some(Op::OpenFile { ds: 0, name: format!("CYC{}.DAT", left), mode: 2, fs: 1.min(w.fslots.len() as u8 - 1), fl: 0 })
                } else {
                    Some(Op::Delete { ds: 0, name: format!("CYC{}.DAT", left), fl: 0 })
                }
            }
        }
    }

    fn next_burst(&mut self, w: &World) -> Option<Op> {
        let (ds, fs, left, phase) = self.burst?;
        if w.dslots.get(ds as usize).map_or(true, |s| s.cur.is_none()) {
            self.burst = None;
            return None;
        }
        match phase {
            0 => {
                if left == 0 || w.fslots.get(fs as usize).map_or(true, |s| s.cur.is_some()) {
                    self.burst = None;
                    return Some(Op::Iterate { ds, fl: 0, lfn: None, reent: None });
                }
                self.burst = Some((ds, fs, left, 1));
                Some(Op::OpenFile { ds, name: format!("B{:05}.B", left), mode: 3, fs, fl: 0 })
            }
            _ => {
                if w.fslots[fs as usize].cur.is_none() {
                    // the create was refused (directory or volume full): the burst ends here
                    self.burst = None;
                    return Some(Op::Checkpoint);
                }
                self.burst = Some((ds, fs, left - 1, 0));
                Some(Op::CloseFile { fs, fl: 0 })
            }
        }
    }

    pub fn next(&mut self, w: &World) -> Option<Op> {
        if self.burst.is_some() {
            if let Some(op) = self.next_burst(w) {
                return Some(op);
            }
        }
        if let Some(k) = self.burst_plan {
            if let (Some(ds), Some(fs)) = (Self::used_slot(&w.dslots, &mut self.rng), Self::free_slot(&w.fslots, &mut self.rng)) {
                if self.rng.chance(1, 3) {
                    self.burst_plan = None;
                    self.burst = Some((ds, fs, k, 0));
                    self.target_len += 2 * k as usize + 6;
                    return self.next_burst(w);
                }
            }
        }
        if self.cycle.is_some() {
            if let Some(op) = self.next_cycle(w) {
                return Some(op);
            }
        }
        let nv = w.open_vol_count();
        let nd = w.open_dir_count();
        let nf = w.open_file_count();
        let pw = self.p.w.clone();
        for _ in 0..200 {
            // essentials first: without a volume and a directory nothing interesting can happen
            let weights: Vec<u32> = vec![
                if nv == 0 { 60 } else { pw.open_volume },
                pw.close_volume,
                if nv > 0 && nd == 0 { 60 } else { pw.open_root },
                pw.open_dir,
                pw.change_dir,
                pw.close_dir,
                pw.find,
                pw.iterate,
                if nd > 0 && nf == 0 { pw.open_file * 2 } else { pw.open_file },
                pw.close_file,
                pw.flush,
                pw.read,
                pw.write,
                pw.seek,
                pw.query,
                pw.delete,
                pw.mkdir,
                pw.has_open,
                pw.label,
                pw.stale,
                pw.clock,
                pw.checkpoint,
            ];
            let k = self.rng.weighted(&weights);
            let op = match k {
                0 => {
                    let vs = Self::free_slot(&w.vslots, &mut self.rng)?;
                    // mostly volumes that exist; sometimes empty/foreign/out-of-range indices
                    let idx = if self.rng.chance(9, 10) { w.vols[self.rng.usize_below(w.vols.len())].mbr_slot } else { self.rng.below(6) as u8 };
                    Some(Op::OpenVolume { vs, idx, fl: self.rng.below(2) as u8 })
                }
                1 => Self::used_slot(&w.vslots, &mut self.rng).map(|vs| Op::CloseVolume { vs, fl: self.fl() }),
                2 => match (Self::used_slot(&w.vslots, &mut self.rng), Self::free_slot(&w.dslots, &mut self.rng)) {
                    (Some(vs), Some(ds)) => Some(Op::OpenRoot { vs, ds, fl: self.rng.below(2) as u8 }),
                    _ => None,
                },
                3 => match (Self::used_slot(&w.dslots, &mut self.rng), Self::free_slot(&w.dslots, &mut self.rng)) {
                    (Some(ds), Some(nds)) => {
                        let dh = &w.dslots[ds as usize].cur.as_ref().unwrap().1;
                        let want = if self.rng.chance(5, 6) { 2 } else { 0 };
                        let name = self.pick_name(w, dh.vol, dh.dir, want);
                        Some(Op::OpenDir { ds, name, nds, fl: self.rng.below(2) as u8 })
                    }
                    _ => None,
                },
                4 => Self::used_slot(&w.dslots, &mut self.rng).map(|ds| {
                    let dh = &w.dslots[ds as usize].cur.as_ref().unwrap().1;
                    let name = self.pick_name(w, dh.vol, dh.dir, 2);
                    Op::ChangeDir { ds, name }
                }),
                5 => Self::used_slot(&w.dslots, &mut self.rng).map(|ds| Op::CloseDir { ds, fl: self.fl() }),
                6 => Self::used_slot(&w.dslots, &mut self.rng).map(|ds| {
                    let dh = &w.dslots[ds as usize].cur.as_ref().unwrap().1;
                    let want = if self.rng.chance(1, 4) { 3 } else { 0 };
                    let name = self.pick_name(w, dh.vol, dh.dir, want);
                    Op::Find { ds, name, fl: self.rng.below(2) as u8 }
                }),
                7 => Self::used_slot(&w.dslots, &mut self.rng).map(|ds| {
                    let lfn = if self.rng.chance(1, 3) { Some(*self.rng.pick(&[0u16, 1, 5, 40, 64, 255, 780])) } else { None };
                    let reent = if self.rng.below(100) < self.p.reent_pct { Some(self.rng.below(28) as u8) } else { None };
                    Op::Iterate { ds, fl: self.rng.below(2) as u8, lfn, reent }
                }),
                8 => match (Self::used_slot(&w.dslots, &mut self.rng), Self::free_slot(&w.fslots, &mut self.rng)) {
                    (Some(ds), Some(fs)) => {
                        let dh = &w.dslots[ds as usize].cur.as_ref().unwrap().1;
                        let mode = self.rng.below(6) as u8;
                        let want = match self.rng.below(10) {
                            0 => 2,
                            1 | 2 | 3 => 3,
                            _ => 1,
                        };
                        let mut name = self.pick_name(w, dh.vol, dh.dir, want);
                        if name == "." || name == ".." {
                            // creating files named like the dot entries is outside every statement
                            if mode >= 3 {
                                name = self.fresh_name(false);
                            }
                        }
                        Some(Op::OpenFile { ds, name, mode, fs, fl: self.rng.below(2) as u8 })
                    }
                    _ => None,
                },
                9 => Self::used_slot(&w.fslots, &mut self.rng).map(|fs| Op::CloseFile { fs, fl: self.fl() }),
                10 => Self::used_slot(&w.fslots, &mut self.rng).map(|fs| Op::Flush { fs, fl: self.fl() }),
                11 => Self::used_slot(&w.fslots, &mut self.rng).map(|fs| {
                    let len = self.io_len(w, fs, false);
                    Op::Read { fs, len, fl: self.fl() }
                }),
                12 => Self::used_slot(&w.fslots, &mut self.rng).map(|fs| {
                    let len = self.io_len(w, fs, true);
                    let seed = self.rng.next_u32();
                    // now and then "a one and then zeros" (derived from the seed drawn anyway: no extra draw)
                    let seed = if seed % 11 == 3 { seed | crate::rng::ZERO_PAYLOAD } else { seed };
                    Op::Write { fs, len, seed, fl: self.fl() }
                }),
                13 => Self::used_slot(&w.fslots, &mut self.rng).map(|fs| self.seek_op(w, fs)),
                14 => Self::used_slot(&w.fslots, &mut self.rng).map(|fs| Op::Query { fs, fl: self.rng.below(2) as u8 }),
                15 => Self::used_slot(&w.dslots, &mut self.rng).map(|ds| {
                    let dh = &w.dslots[ds as usize].cur.as_ref().unwrap().1;
                    let want = match self.rng.below(12) {
                        0 => 2,
                        1 => 3,
                        _ => 1,
                    };
                    let name = self.pick_name(w, dh.vol, dh.dir, want);
                    Op::Delete { ds, name, fl: self.rng.below(2) as u8 }
                }),
                16 => Self::used_slot(&w.dslots, &mut self.rng).map(|ds| {
                    let dh = &w.dslots[ds as usize].cur.as_ref().unwrap().1;
                    let want = match self.rng.below(10) {
                        0 => 1,
                        1 => 2,
                        _ => 3,
                    };
                    let mut name = self.pick_name(w, dh.vol, dh.dir, want);
                    if name == "." || name == ".." {
                        name = self.fresh_name(true);
                    }
                    Op::MkDir { ds, name, fl: self.rng.below(2) as u8 }
                }),
                17 => {
                    if self.p.name == "C08" && self.rng.chance(1, 25) {
                        Self::used_slot(&w.vslots, &mut self.rng).map(|vs| Op::Churn { vs, n: *self.rng.pick(&[3u32, 300, 65535, 65536, 65537, 70000]) })
                    } else {
                        Some(Op::HasOpen)
                    }
                }
                18 => Self::used_slot(&w.vslots, &mut self.rng).map(|vs| Op::Label { vs }),
                19 => match self.rng.below(3) {
                    0 => Self::dead_slot(&w.vslots, &mut self.rng).map(|vs| Op::StaleVol { vs, m: self.rng.below(3) as u8 }),
                    1 => Self::dead_slot(&w.dslots, &mut self.rng).map(|ds| Op::StaleDir { ds, m: self.rng.below(9) as u8 + if self.rng.chance(1, 4) { 64 } else { 0 } }),
                    _ => Self::dead_slot(&w.fslots, &mut self.rng).map(|fs| Op::StaleFile { fs, m: self.rng.below(10) as u8 + if self.rng.chance(1, 4) { 64 } else { 0 } }),
                },
                20 => {
                    let s = match self.rng.below(8) {
                        0 => self.secs + 1,
                        1 => self.secs + 2,
                        2 => self.secs + self.rng.range(3, 120),
                        3 => self.secs + self.rng.range(3600, 86400 * 400),
                        4 => self.secs.saturating_sub(self.rng.range(1, 86400 * 30)),
                        5 => self.rng.range(0, MAX_SECS),
                        6 => self.secs, // stall
                        _ => self.secs + self.rng.range(1, 10),
                    };
                    self.secs = s.min(MAX_SECS);
                    Some(Op::Clock { secs: self.secs })
                }
                _ => Some(Op::Checkpoint),
            };
            if let Some(op) = op {
                return Some(op);
            }
        }
        None
    }

    fn io_len(&mut self, w: &World, fs: u8, write: bool) -> u32 {
        let fh = &w.fslots[fs as usize].cur.as_ref().unwrap().1;
        let cb = w.vols[fh.vol].geom.cluster_bytes();
        let off = fh.off;
        let to_block = 512 - off % 512;
        let to_cluster = cb - off % cb;
        let big = self.p.big_writes || !write;
        let r = self.rng.below(16);
        let len = match r {
            0 => 0,
            1 => 1,
            2 => self.rng.range(2, 511) as u32,
            3 => to_block,
            4 => to_block + 1,
            5 => 512,
            6 => to_cluster,
            7 => to_cluster + 1,
            8 => to_cluster.saturating_sub(1).max(1),
            9 if big => to_cluster + cb,
            10 if big => to_cluster + cb * (self.rng.range(1, 3) as u32) + self.rng.range(0, 600) as u32,
            11 => self.rng.range(1, 2048) as u32,
            12 => cb,
            _ => self.rng.range(1, 700) as u32,
        };
        // keep single operations bounded (128 blocks/cluster makes clusters 64 KiB)
        len.min(3 * cb + 1024).min(400_000)
    }

    fn seek_op(&mut self, w: &World, fs: u8) -> Op {
        let fh = &w.fslots[fs as usize].cur.as_ref().unwrap().1;
        let cb = w.vols[fh.vol].geom.cluster_bytes() as i64;
        let len = w.file_ref(fh.vol, fh.dir, &fh.name).map_or(0, |f| match &f.data {
            Content::Mem(d) => d.len() as i64,
            Content::Lazy(n) => *n as i64,
        });
        let off = fh.off as i64;
        let fl = self.fl();
        let interesting: Vec<i64> = vec![0, 1, 511, 512, 513, cb - 1, cb, cb + 1, 2 * cb, len, len - 1, len + 1, len / 2, off - cb, off - 2 * cb, off + cb, (off / cb) * cb, ((off / cb) - 1) * cb];
        let t = if self.rng.chance(3, 4) { *self.rng.pick(&interesting) } else { self.rng.range(0, (len + 2) as u64) as i64 };
        if fl == 2 && (self.p.name == "C01" || self.p.name == "C02") && self.rng.chance(1, 8) {
            // through the embedded-io adapter: positions and moves of 2^32 and more, whose low 32 bits lie inside the
            // file (refused like every position behind the end)
            let low = (*self.rng.pick(&[0i64, 1, 10, len, len / 2, off, 512])).clamp(0, len.max(0));
            return match self.rng.below(4) {
                0 => Op::SeekStart { fs, off: (1u64 << 32) + low as u64, fl },
                1 => Op::SeekStart { fs, off: (1u64 << 32) * self.rng.range(2, 9) + low as u64, fl },
                2 => Op::SeekCur { fs, delta: (1i64 << 32) + (low - off), fl },
                _ => Op::SeekCur { fs, delta: -(1i64 << 32) + (low - off), fl },
            };
        }
        match self.rng.below(3) {
            0 => Op::SeekStart { fs, off: if t < 0 { 0 } else { t as u64 }, fl },
            1 => Op::SeekCur { fs, delta: t - off, fl },
            _ => {
                let back = len - t;
                if fl == 2 && self.rng.chance(1, 6) {
                    // through the embedded-io adapter: SeekFrom::End(+n), n > 0 - a position behind the end, refused
                    // like every other one (encoded as POSITIVE_END + n; see Fs::seek_end)
                    let n = (*self.rng.pick(&[1i64, 2, 10, len, len / 2, cb, 511])).max(1) as u64;
                    return Op::SeekEnd { fs, back: crate::fs::POSITIVE_END + n, fl };
                }
                Op::SeekEnd { fs, back: if back < 0 { (len + 1) as u64 } else { back as u64 }, fl }
            }
        }
    }
}
