//! Generated / corrupted directory media, read through the block-device seam (C06 media half,
//! C17). A directory is built slot by slot on a freshly formatted volume; the library lists
//! it, looks names up and opens sub-directories; every answer is compared with the independent
//! reader's view of the same bytes.

use crate::batch::CaseOutcome;
use crate::clock::SimClock;
use crate::disk::{Blk, Image, RoDisk};
use crate::exec::sfn_bytes;
use crate::exec_dirs::cmp_entry;
use crate::fatspec::{self, DirLoc, FatView, Geom, LfnVerdict};
use crate::fs::{err_name, make_fs, Name};
use crate::mkfs::{self, lfn_slot_raw, VolSpec};
use crate::rng::Rng;
use crate::world::{Probes, Violation};
use serde::{Deserialize, Serialize};

#[derive(Serialize, Deserialize, Clone, Debug, PartialEq)]
pub struct DirCase {
    pub vol: VolSpec,
    /// 0: the root directory, 1: a sub-directory of the root
    pub place: u8,
    pub fragmented: bool,
    /// the 32-byte slots, hex encoded
    pub slots: Vec<String>,
    /// LFN buffer sizes to list with
    pub bufs: Vec<u16>,
    /// stored-byte corruption applied after building: (slot index, byte index, xor mask)
    pub flips: Vec<(u32, u8, u8)>,
    pub seed: u64,
    /// this many deleted slots are inserted behind the first two slots: the directory reaches the largest legal
    /// size (65536 slots) with live entries in its last cluster
    #[serde(default)]
    pub pad_deleted: u32,
    /// the directory is first listed while the medium is in an older state (every slot of the data / root area
    /// reads as deleted), then the current state appears and the caller reaches for `device()`
    #[serde(default)]
    pub stale_first: bool,
}

fn hex(b: &[u8]) -> String {
    b.iter().map(|x| format!("{:02x}", x)).collect()
}
fn unhex(s: &str) -> [u8; 32] {
    let mut o = [0u8; 32];
    for i in 0..32 {
        o[i] = u8::from_str_radix(&s[2 * i..2 * i + 2], 16).unwrap_or(0);
    }
    o
}

const UNIT_CLASSES: usize = 7;
fn unit_of_class(r: &mut Rng, c: usize) -> u16 {
    match c {
        0 => r.range(0x20, 0x7E) as u16,
        1 => r.range(0xA0, 0xFF) as u16,
        2 => *r.pick(&[0x0100u16, 0x20AC, 0x4E2D, 0xD7FF, 0xE000, 0xFFFD, 0xFFFE]),
        3 => 0x0000,
        4 => 0xFFFF,
        5 => r.range(0xD800, 0xDBFF) as u16,
        _ => r.range(0xDC00, 0xDFFF) as u16,
    }
}

fn random_short_name(r: &mut Rng) -> [u8; 11] {
    let mut n = [b' '; 11];
    let bl = r.range(1, 8) as usize;
    let el = r.range(0, 3) as usize;
    let typable = r.chance(1, 2);
    let alphabet: &[u8] = if typable { b"ABCDEFGHIJKLMNOPQRSTUVWXYZ0123456789_-~" } else { b"ABCDEFGHIJKLMNOPQRSTUVWXYZ0123456789_-~!#$%&'()@^`{}abcxyz" };
    for i in 0..bl {
        n[i] = match r.below(12) {
            0 if !typable => r.range(0x80, 0xFF) as u8,
            _ => *r.pick(alphabet),
        };
    }
    for i in 0..el {
        n[8 + i] = *r.pick(alphabet);
    }
    if n[0] == 0xE5 || n[0] == b' ' {
        n[0] = b'Q';
    }
    if r.chance(1, 40) {
        n[0] = 0x05;
    }
    n
}

struct Builder {
    img: Image,
    g: Geom,
    next_free: u32,
}

impl Builder {
    fn set_fat(&mut self, c: u32, v: u32) {
        for copy in 0..self.g.num_fats {
            let (blk, off) = self.g.fat_loc(copy, c);
            if self.g.fat32 {
                self.img.patch(blk, off, &v.to_le_bytes());
            } else {
                self.img.patch(blk, off, &(v as u16).to_le_bytes());
            }
        }
    }
    fn eoc(&self) -> u32 {
        if self.g.fat32 {
            0x0FFF_FFFF
        } else {
            0xFFFF
        }
    }
    fn alloc(&mut self, r: &mut Rng, scatter: bool) -> u32 {
        if scatter {
            self.next_free += r.range(1, 40) as u32;
        }
        let c = self.next_free;
        self.next_free += 1;
        let e = self.eoc();
        self.set_fat(c, e);
        c
    }
    fn write_cluster(&mut self, c: u32, bytes: &[u8]) {
        for s in 0..self.g.spc {
            let mut b: Blk = [0u8; 512];
            let o = (s * 512) as usize;
            if o < bytes.len() {
                let n = (bytes.len() - o).min(512);
                b[..n].copy_from_slice(&bytes[o..o + n]);
            }
            self.img.set(self.g.cluster_block(c) + s, &b);
        }
    }
}

fn gen_slots(r: &mut Rng, max_slots: usize, b: &mut Builder, self_cluster: u32, is_sub: bool, thorough: bool) -> Vec<[u8; 32]> {
    let fat32 = b.g.fat32;
    let t = mkfs::FORMAT_TIME;
    let mut slots: Vec<[u8; 32]> = Vec::new();
    let mk = |name: &[u8; 11], attr: u8, cl: u32, size: u32, r: &mut Rng| -> [u8; 32] {
        let mut e = [0u8; 32];
        e[..11].copy_from_slice(name);
        e[11] = attr;
        let (d, tm) = t.to_fat();
        // arbitrary stored date/time words now and then
        let (d, tm) = if r.chance(1, 4) { (r.next_u32() as u16, r.next_u32() as u16) } else { (d, tm) };
        e[14..16].copy_from_slice(&tm.to_le_bytes());
        e[16..18].copy_from_slice(&d.to_le_bytes());
        let (d2, tm2) = if r.chance(1, 4) { (r.next_u32() as u16, r.next_u32() as u16) } else { (d, tm) };
        e[22..24].copy_from_slice(&tm2.to_le_bytes());
        e[24..26].copy_from_slice(&d2.to_le_bytes());
        if fat32 {
            e[20..22].copy_from_slice(&((cl >> 16) as u16).to_le_bytes());
        }
        e[26..28].copy_from_slice(&(cl as u16).to_le_bytes());
        e[28..32].copy_from_slice(&size.to_le_bytes());
        e
    };
    if is_sub {
        slots.push(mk(b".          ", 0x10, self_cluster, 0, r));
        slots.push(mk(b"..         ", 0x10, 0, 0, r));
    }
    let n_items = r.range(1, 30) as usize;
    let mut prev_short: Option<[u8; 11]> = None;
    for _ in 0..n_items {
        if slots.len() + 24 > max_slots {
            break;
        }
        match r.below(20) {
            0 | 1 => {
                let mut e = mk(&random_short_name(r), 0x20, 5, 100, r);
                e[0] = 0xE5;
                slots.push(e);
            }
            2 => {
                // volume label
                slots.push(mk(b"SOMELABEL  ", 0x08, 0, 0, r));
            }
            3 => {
                // sub-directory with a real cluster
                let c = b.alloc(r, false);
                let mut bytes = vec![0u8; 64];
                bytes[..32].copy_from_slice(&mk(b".          ", 0x10, c, 0, r));
                bytes[32..64].copy_from_slice(&mk(b"..         ", 0x10, if is_sub { self_cluster } else { 0 }, 0, r));
                b.write_cluster(c, &bytes);
                let n = random_short_name(r);
                slots.push(mk(&n, 0x10, c, 0, r));
                prev_short = Some(n);
            }
            5 if r.chance(1, 3) => {
                // a directory entry whose start cluster is nonsense (reserved, out of range, free)
                let n = random_short_name(r);
                let bogus = *r.pick(&[1u32, b.g.clusters + 2, b.g.clusters + 500, 0xFFF7, 0x0FFF_FFF7, 0x0FFF_FFFF, 0xFFFF_FFFF, 3000]);
                slots.push(mk(&n, 0x10, bogus, 0, r));
                prev_short = Some(n);
            }
            4 if !slots.is_empty() && r.chance(1, 3) => {
                // an end marker in the middle, followed by whatever comes next (must not be listed)
                slots.push([0u8; 32]);
            }
            _ => {
                // a short entry, usually preceded by a long-name run in one of many variants
                let name = match (r.below(12), prev_short) {
                    // same 11 bytes (hence same checksum) as the previous short entry
                    (0, Some(p)) => p,
                    _ => random_short_name(r),
                };
                let csum = fatspec::sfn_checksum(&name);
                let nfrag = if r.chance(1, 10) { r.range(14, 20) as usize } else { r.range(1, 4) as usize };
                let variant = r.below(16);
                let mut frags: Vec<[u16; 13]> = Vec::new(); // name order
                for k in 0..nfrag {
                    let mut u = [0u16; 13];
                    // class choice per unit; the boundary units get every class pair in the thorough tier
                    let style = r.below(4);
                    for i in 0..13 {
                        let cl = match style {
                            0 => 0,
                            1 => *r.pick(&[0usize, 0, 0, 1, 2]),
                            _ => r.usize_below(UNIT_CLASSES),
                        };
                        let cl = if cl == 3 && !(k + 1 == nfrag) && !thorough && r.chance(3, 4) { 0 } else { cl };
                        u[i] = unit_of_class(r, cl);
                    }
                    if r.chance(1, 2) || thorough {
                        let c0 = r.usize_below(UNIT_CLASSES);
                        u[0] = unit_of_class(r, c0);
                        let c12 = r.usize_below(UNIT_CLASSES);
                        u[12] = unit_of_class(r, c12);
                    }
                    if k + 1 == nfrag && r.chance(2, 3) {
                        // proper termination: NUL then 0xFFFF padding
                        let cut = r.range(1, 12) as usize;
                        u[cut] = 0;
                        for x in u[cut + 1..].iter_mut() {
                            *x = 0xFFFF;
                        }
                    }
                    frags.push(u);
                }
                // emit in disk order with the chosen defect
                let mut run: Vec<[u8; 32]> = Vec::new();
                for k in (0..nfrag).rev() {
                    let mut ord = (k + 1) as u8;
                    if k + 1 == nfrag {
                        ord |= 0x40;
                    }
                    run.push(lfn_slot_raw(ord, csum, &frags[k]));
                }
                match variant {
                    0 => {
                        // wrong checksum everywhere
                        for s in run.iter_mut() {
                            s[13] = csum.wrapping_add(1);
                        }
                    }
                    1 if run.len() > 1 => {
                        // gap in the ordinals
                        let k = r.usize_below(run.len() - 1) + 1;
                        run.remove(k);
                    }
                    2 if run.len() > 1 => {
                        let k = r.usize_below(run.len());
                        let d = run[k];
                        run.insert(k, d);
                    }
                    3 if run.len() > 1 => {
                        let k = r.usize_below(run.len() - 1);
                        run.swap(k, k + 1);
                    }
                    4 => {
                        run[0][0] &= !0x40;
                    }
                    5 => {
                        run[0][0] = 0x40 | *r.pick(&[0u8, 21, 25, 31, 63]) & 0x3F | 0x40;
                    }
                    6 => {
                        // run cut by a deleted slot
                        let k = r.usize_below(run.len() + 1);
                        let mut e = mk(&random_short_name(r), 0x20, 0, 0, r);
                        e[0] = 0xE5;
                        run.insert(k, e);
                    }
                    7 => {
                        // run cut by another short entry
                        let k = r.usize_below(run.len()) + 1;
                        let other = random_short_name(r);
                        run.insert(k.min(run.len()), mk(&other, 0x20, 0, 0, r));
                    }
                    8 if run.len() > 1 => {
                        // checksum differs in a middle fragment only
                        let k = r.usize_below(run.len() - 1) + 1;
                        run[k][13] = csum.wrapping_add(7);
                    }
                    9 => {
                        // no run at all
                        run.clear();
                    }
                    10 => {
                        // cut by a volume label
                        run.push(mk(b"LABEL      ", 0x08, 0, 0, r));
                    }
                    _ => {}
                }
                slots.extend(run);
                let attr = *r.pick(&[0x20u8, 0x20, 0x00, 0x01, 0x21, 0x22, 0x06]);
                let size = *r.pick(&[0u32, 1, 511, 512, 70000, 0xFFFF_FFFF]);
                let cl = if size == 0 { 0 } else { r.range(2, b.g.clusters as u64 + 1) as u32 };
                slots.push(mk(&name, attr, cl, size, r));
                prev_short = Some(name);
            }
        }
    }
    if r.chance(1, 4) {
        // orphan run at the very end
        let name = random_short_name(r);
        let u = [0x41u16; 13];
        slots.push(lfn_slot_raw(0x41, fatspec::sfn_checksum(&name), &u));
    }
    slots
}

pub fn gen_case(seed: u64, thorough: bool) -> DirCase {
    let mut r = Rng::new(seed);
    let fat32 = r.chance(1, 2);
    let mut v = VolSpec::plain(fat32, *r.pick(&[1u32, 63, 2048]));
    v.spc = *r.pick(&[1u8, 1, 2, 4]);
    v.num_fats = *r.pick(&[1u8, 2]);
    v.root_entries = if fat32 { 0 } else { *r.pick(&[16u16, 32, 64, 128, 512]) };
    v.clusters = if fat32 { 65525 + r.range(0, 300) as u32 } else { 4085 + r.range(0, 300) as u32 };
    v.root_cluster = if fat32 { *r.pick(&[2u32, 2, 7, 300]) } else { 0 };
    v.tree.seed = r.next_u64();
    let place = if r.chance(1, 2) { 0 } else { 1 };
    let mut fragmented = r.chance(1, 2);
    // now and then a sub-directory of the largest legal size
    let max_dir = place == 1 && r.chance(1, 250);
    if max_dir {
        fragmented = false;
        v.clusters = v.clusters.max(2000 + 65536 / (16 * v.spc as u32) + 16);
    }
    // build once to get the slots (the builder needs the volume for sub-directory clusters)
    let (slots, _) = build_slots(&v, place, fragmented, seed, thorough);
    let mut bufs: Vec<u16> = vec![780, 0, 1, 2, 3, 4];
    for _ in 0..3 {
        bufs.push(r.range(0, 780) as u16);
    }
    let mut flips = Vec::new();
    if r.chance(1, 3) {
        for _ in 0..r.range(1, 6) {
            flips.push((r.below(slots.len().max(1) as u64) as u32, r.below(32) as u8, 1u8 << r.below(8)));
        }
    }
    let mut slots = slots;
    let mut pad_deleted = 0;
    if max_dir {
        // the generated slots must not end the directory early: keep what lies before the first end marker
        if let Some(p) = slots.iter().position(|s| s[0] == 0) {
            slots.truncate(p);
        }
        pad_deleted = 65536u32.saturating_sub(slots.len() as u32);
        bufs.truncate(2);
    }
    // not drawn from `r`: the stream above stays what older replay files were made with
    let stale_first = !max_dir && Rng::new(seed ^ 0x5354_414c_4531).chance(1, 4);
    DirCase { vol: v, place, fragmented, slots: slots.iter().map(|s| hex(s)).collect(), bufs, flips, seed, pad_deleted, stale_first }
}

fn build_slots(v: &VolSpec, place: u8, _fragmented: bool, seed: u64, thorough: bool) -> (Vec<[u8; 32]>, u32) {
    let mut img = Image::new(v.lba + v.total_blocks() + 8, false);
    let out = mkfs::format_volume(&mut img, v);
    let mut b = Builder { img, g: out.geom.clone(), next_free: 1000 };
    let mut r = Rng::new(seed ^ 0x5107);
    let max_slots = if place == 0 && !v.fat32 { v.root_entries as usize } else { 6 * 16 * v.spc as usize };
    let self_cluster = 900;
    let s = gen_slots(&mut r, max_slots.max(26), &mut b, self_cluster, place == 1, thorough);
    let s = if s.len() > max_slots { s[..max_slots].to_vec() } else { s };
    (s, self_cluster)
}

/// Build the medium for a case. Returns image, geometry, and the location of the directory under test.
pub fn build(case: &DirCase) -> (Image, Geom, DirLoc, u8) {
    let v = &case.vol;
    let mut img = Image::new(v.lba + v.total_blocks() + 8, false);
    // MBR
    let mut mbr: Blk = [0u8; 512];
    mbr[510] = 0x55;
    mbr[511] = 0xAA;
    let o = 446;
    mbr[o + 4] = v.ptype;
    mbr[o + 8..o + 12].copy_from_slice(&v.lba.to_le_bytes());
    mbr[o + 12..o + 16].copy_from_slice(&v.total_blocks().to_le_bytes());
    img.set(0, &mbr);
    let out = mkfs::format_volume(&mut img, v);
    let g = out.geom.clone();
    let mut b = Builder { img, g: g.clone(), next_free: 1000 };
    // regenerate the sub-directory clusters exactly as at generation time
    let mut r = Rng::new(case.seed ^ 0x5107);
    let max_slots = if case.place == 0 && !v.fat32 { v.root_entries as usize } else { 6 * 16 * v.spc as usize };
    let _ = gen_slots(&mut r, max_slots.max(26), &mut b, 900, case.place == 1, false);
    let mut slots: Vec<[u8; 32]> = case.slots.iter().map(|s| unhex(s)).collect();
    for &(si, bi, m) in &case.flips {
        if let Some(s) = slots.get_mut(si as usize) {
            s[bi as usize % 32] ^= m;
        }
    }
    if case.pad_deleted > 0 {
        let mut d = [0u8; 32];
        d[0] = 0xE5;
        d[1..11].copy_from_slice(b"ADPADPADPA");
        d[11] = 0x20;
        let at = slots.len().min(2);
        let tail = slots.split_off(at);
        slots.extend(std::iter::repeat(d).take(case.pad_deleted as usize));
        slots.extend(tail);
    }
    let mut fr = Rng::new(case.seed ^ 0xF4A6);
    let per = 16 * g.spc as usize;
    let loc;
    if case.place == 0 && !g.fat32 {
        for (i, s) in slots.iter().enumerate().take(g.root_entries as usize) {
            b.img.patch(g.root_dir_start + (i / 16) as u32, (i % 16) * 32, s);
        }
        loc = DirLoc::Fat16Root;
    } else {
        // a chain long enough for the slots (+ sometimes an extra cluster)
        let nclus = ((slots.len() + per - 1) / per).max(1) + if fr.chance(1, 4) && case.pad_deleted == 0 { 1 } else { 0 };
        let first = if case.place == 0 { g.root_cluster } else { 900 };
        let mut chain = vec![first];
        b.next_free = 2000;
        for _ in 1..nclus {
            let c = b.alloc(&mut fr, case.fragmented);
            chain.push(c);
        }
        for w in 0..chain.len() {
            let v = if w + 1 < chain.len() { chain[w + 1] } else { b.eoc() };
            b.set_fat(chain[w], v);
        }
        let mut bytes = vec![0u8; chain.len() * per * 32];
        for (i, s) in slots.iter().enumerate() {
            bytes[i * 32..i * 32 + 32].copy_from_slice(s);
        }
        for (i, &c) in chain.iter().enumerate() {
            b.write_cluster(c, &bytes[i * per * 32..(i + 1) * per * 32]);
        }
        if case.place == 1 {
            // hook the sub-directory into the root as "SUBDIR"
            let mut e = [0u8; 32];
            e[..11].copy_from_slice(b"SUBDIR     ");
            e[11] = 0x10;
            if g.fat32 {
                e[20..22].copy_from_slice(&((first >> 16) as u16).to_le_bytes());
            }
            e[26..28].copy_from_slice(&(first as u16).to_le_bytes());
            let root_blk = if g.fat32 { g.cluster_block(g.root_cluster) } else { g.root_dir_start };
            b.img.patch(root_blk, 0, &e);
        }
        loc = DirLoc::Cluster(first);
    }
    (b.img, g, loc, v.slot)
}

pub fn dir_eval(prop: &'static str, case: &DirCase) -> CaseOutcome {
    let mut out = CaseOutcome::default();
    out.case = serde_json::to_value(case).unwrap();
    out.evaluations = 1;
    let (img, g, loc, slot) = build(case);
    let fat = FatView::load(&img, &g, 0);
    let (slots, _chain, cerr) = fatspec::dir_slots(&img, &g, &fat, loc);
    let ents = fatspec::live_entries(&slots, g.fat32);
    let mut probes = Probes::default();
    if slots.len() >= 65536 {
        probes.hit("directory_of_65536_slots");
    }
    let mut viols: Vec<Violation> = Vec::new();
    let mut h = 0xcbf29ce484222325u64;
    let clock = SimClock::new(0);
    let ro = RoDisk::new(&img);
    let fs = make_fs((4, 4, 1), &ro, &clock, 1);
    let mut push = |prop: &'static str, oracle: &str, disc: &str, detail: String| {
        if viols.len() < 8 {
            viols.push(Violation { prop, oracle: oracle.into(), disc: disc.into(), detail, op_idx: 0 });
        }
    };
    macro_rules! guarded {
        ($e:expr) => {
            std::panic::catch_unwind(std::panic::AssertUnwindSafe(|| $e))
        };
    }
    let vh = match guarded!(fs.open_volume(slot as usize, 0)) {
        Ok(Ok(v)) => v,
        other => {
            push(prop, "harness-mount", "", format!("{:?}", other.map(|r| r.map(|_| ()).map_err(|e| err_name(&e)))));
            out.viols = viols;
            return out;
        }
    };
    let root = fs.open_root_dir(vh, 0).unwrap();
    let dir = if case.place == 1 {
        match guarded!(fs.open_dir(root, &Name::Str("SUBDIR".into()), 0)) {
            Ok(Ok(d)) => d,
            _ => {
                push(prop, "harness-open-subdir", "", String::new());
                out.viols = viols;
                return out;
            }
        }
    } else {
        root
    };
    if cerr.is_some() {
        probes.hit("directory_chain_broken_by_corruption");
    }
    if case.stale_first {
        // an older state of the medium (another host has not stored the entries yet), listed once; then the
        // current state, and the caller goes through `device()`: every answer below must come from the medium
        let first_dir_block = if g.fat32 { g.first_data } else { g.root_dir_start };
        ro.old_from.set(Some(first_dir_block));
        let mut n = 0usize;
        let _ = guarded!(fs.iterate(dir, 0, &mut |_| n += 1));
        ro.old_from.set(None);
        fs.touch_device();
        probes.hit("directory_changed_on_the_medium_between_two_listings");
    }
    // ---- C06: plain listing
    let mut listing: Vec<embedded_sdmmc::DirEntry> = Vec::new();
    let r = guarded!(fs.iterate(dir, 0, &mut |e| listing.push(e.clone())));
    match r {
        Err(_) => push(if prop == "C17" { "C17" } else { "C06" }, "listing-panic", "", crate::last_panic_location()),
        Ok(Err(e)) => {
            if cerr.is_none() {
                push("C06", "listing-error", err_name(&e), String::new());
            }
        }
        Ok(Ok(())) => {
            // the library's notion of a long-name slot is "low four attribute bits all set"; the
            // specification's is (attr & 0x3F) == 0x0F. Slots on which the two differ are outside the statement.
            let odd = slots[..fatspec::end_index(&slots)].iter().any(|s| s.raw[0] != 0xE5 && (s.raw[11] & 0x0F) == 0x0F && (s.raw[11] & 0x3F) != 0x0F);
            if odd {
                probes.hit("attribute_byte_ambiguous_skipped");
            } else if cerr.is_none() {
                if listing.len() != ents.len() {
                    push("C06", "listing-length", if listing.len() < ents.len() { "short" } else { "long" }, format!("library {} entries, reader {}", listing.len(), ents.len()));
                } else {
                    for (i, (de, e)) in listing.iter().zip(ents.iter()).enumerate() {
                        if let Some(d) = cmp_entry(de, e) {
                            push("C06", "listing-entry", d.split(' ').next().unwrap_or(""), format!("entry {}: {}", i, d));
                            break;
                        }
                    }
                }
                probes.hit("generated_directory_listed");
                if fatspec::end_index(&slots) < slots.len() && slots[fatspec::end_index(&slots)..].iter().any(|s| s.raw[0] != 0) {
                    probes.hit("garbage_after_end_marker");
                }
                if ents.len() > 16 * g.spc as usize {
                    probes.hit("listing_spans_clusters");
                }
                // lookup: exactly the listed names, first matching slot
                if prop == "C06" {
                    for de in listing.iter() {
                        let first = ents.iter().find(|e| crate::exec_dirs::same_name(&de.name, &e.name));
                        // corrupted media only: a long-name slot whose first eleven bytes equal this name comes
                        // first. Which of the two a lookup designates is not settled by the statement.
                        if let Some(f) = first {
                            let shadow = slots[..fatspec::end_index(&slots)].iter().take(f.slot_idx).any(|s| s.raw[0] != 0xE5 && fatspec::slot_is_lfn(&s.raw) && s.raw[..11] == f.raw[..11]);
                            if shadow {
                                probes.hit("name_shadowed_by_long_name_slot_skipped");
                                continue;
                            }
                        }
                        match guarded!(fs.find(dir, &Name::Sfn(de.name.clone()), 0)) {
                            Ok(Ok(found)) => {
                                if let Some(f) = first {
                                    if let Some(d) = cmp_entry(&found, f) {
                                        push("C06", "lookup-entry", &d.split(' ').next().unwrap_or("").to_string(), d.clone());
                                    }
                                }
                            }
                            Ok(Err(e)) => push("C06", "lookup-missed-listed-name", err_name(&e), format!("{:?}", de.name)),
                            Err(_) => push("C06", "lookup-panic", "", crate::last_panic_location()),
                        }
                        // open_dir succeeds exactly for directories and leads to the designated cluster
                        let f = match first {
                            Some(f) => f,
                            None => continue,
                        };
                        let r = guarded!(fs.open_dir(dir, &Name::Sfn(de.name.clone()), 0));
                        match r {
                            Ok(Ok(sub)) => {
                                if &f.name == b".          " {
                                    // documented short-cut: "." re-opens the directory itself whatever the slot says
                                } else if !f.is_dir() {
                                    push("C06", "open-dir-on-non-directory", "", fatspec::name_str(&f.name));
                                } else if &f.name != b".          " {
                                    let tloc = if f.cluster == 0 { if g.fat32 { DirLoc::Cluster(g.root_cluster) } else { DirLoc::Fat16Root } } else { DirLoc::Cluster(f.cluster) };
                                    if f.cluster == 0 || g.valid_cluster(f.cluster) {
                                        let (ss, _, e2) = fatspec::dir_slots(&img, &g, &fat, tloc);
                                        let want = fatspec::live_entries(&ss, g.fat32);
                                        let mut got: Vec<embedded_sdmmc::DirEntry> = Vec::new();
                                        let lr = guarded!(fs.iterate(sub, 0, &mut |e| got.push(e.clone())));
                                        if e2.is_none() && matches!(lr, Ok(Ok(()))) {
                                            let same = got.len() == want.len() && got.iter().zip(want.iter()).all(|(a, b)| cmp_entry(a, b).is_none());
                                            if !same {
                                                push("C06", "open-dir-target", "", format!("{}: opened directory lists {} entries, designated cluster holds {}", fatspec::name_str(&f.name), got.len(), want.len()));
                                            }
                                            probes.hit("subdirectory_opened_and_compared");
                                        }
                                    }
                                }
                                let _ = fs.close_dir(sub, 0);
                            }
                            Ok(Err(e)) => {
                                // an entry that designates no cluster of the volume cannot be opened: refusing is right
                                if f.is_dir() && err_name(&e) != "TooManyOpenDirs" && (f.cluster == 0 || g.valid_cluster(f.cluster)) {
                                    push("C06", "open-dir-refused", err_name(&e), fatspec::name_str(&f.name));
                                }
                            }
                            Err(_) => push("C06", "open-dir-panic", "", crate::last_panic_location()),
                        }
                    }
                    // names that exist only behind the end-of-directory marker must not be found
                    let end = fatspec::end_index(&slots);
                    for s in slots.iter().skip(end) {
                        if s.raw[0] == 0 || s.raw[0] == 0xE5 || fatspec::slot_is_lfn(&s.raw) {
                            continue;
                        }
                        let mut n = [0u8; 11];
                        n.copy_from_slice(&s.raw[..11]);
                        if ents.iter().any(|e| e.name == n) {
                            continue;
                        }
                        if let Some(st) = crate::names::sfn_to_string(&n) {
                            match guarded!(fs.find(dir, &Name::Str(st), 0)) {
                                Ok(Ok(_)) => push("C06", "lookup-found-name-behind-end-marker", "", fatspec::name_str(&n)),
                                Err(_) => push("C06", "lookup-panic", "", crate::last_panic_location()),
                                _ => {}
                            }
                            probes.hit("name_behind_end_marker_looked_up");
                        }
                    }
                    // names not in the directory
                    let mut r2 = Rng::new(case.seed ^ 0xAB5E);
                    for _ in 0..4 {
                        let n = random_short_name(&mut r2);
                        if let Some(s) = crate::names::sfn_to_string(&n) {
                            let present = ents.iter().any(|e| e.name == n);
                            match guarded!(fs.find(dir, &Name::Str(s), 0)) {
                                Ok(Ok(_)) if !present => push("C06", "lookup-found-absent-name", "", fatspec::name_str(&n)),
                                Ok(Err(_)) if present => push("C06", "lookup-missed-listed-name", "str", fatspec::name_str(&n)),
                                Err(_) => push("C06", "lookup-panic", "", crate::last_panic_location()),
                                _ => {}
                            }
                        }
                    }
                }
            }
        }
    }
    // ---- C17 ("arbitrary directory bytes never crash a listing"): list every directory an entry designates
    if prop == "C17" {
        for de in listing.iter() {
            if !de.attributes.is_directory() || de.attributes.is_volume() {
                continue;
            }
            let r = guarded!(fs.open_dir(dir, &Name::Sfn(de.name.clone()), 0));
            match r {
                Ok(Ok(sub)) => {
                    let mut buf = [0u8; 64];
                    let lr = guarded!(fs.iterate_lfn(sub, &mut buf, 0, &mut |_, _| {}));
                    if lr.is_err() {
                        push("C17", "listing-panic", &format!("designated-directory:{}", crate::last_panic_location()), format!("listing the directory designated by entry {:?} (cluster {:?}) panicked", format!("{}", de.name), de.cluster));
                    }
                    probes.hit("designated_directory_listed");
                    let _ = fs.close_dir(sub, 0);
                }
                Ok(Err(_)) => {}
                Err(_) => push("C17", "listing-panic", &format!("open_dir:{}", crate::last_panic_location()), String::new()),
            }
        }
    }
    // ---- C17: long-name listing with several buffer sizes
    if prop == "C17" {
        for &bs in &case.bufs {
            let mut buf = vec![0u8; bs as usize];
            let mut got: Vec<(embedded_sdmmc::DirEntry, Option<Vec<u8>>)> = Vec::new();
            let r = guarded!(fs.iterate_lfn(dir, &mut buf, 0, &mut |e, s| got.push((e.clone(), s.map(|x| x.as_bytes().to_vec())))));
            match r {
                Err(_) => {
                    push("C17", "listing-panic", &crate::last_panic_location(), format!("buffer {} bytes", bs));
                    break;
                }
                Ok(Err(e)) => {
                    if cerr.is_none() {
                        push("C17", "listing-error", err_name(&e), String::new());
                    }
                    break;
                }
                Ok(Ok(())) => {}
            }
            crate::rng::fnv_add(&mut h, &(got.len() as u32).to_le_bytes());
            let odd = slots[..fatspec::end_index(&slots)].iter().any(|s| s.raw[0] != 0xE5 && (s.raw[11] & 0x0F) == 0x0F && (s.raw[11] & 0x3F) != 0x0F);
            if odd || cerr.is_some() {
                // still: whatever was reported must be valid UTF-8
                for (_, s) in &got {
                    if let Some(b) = s {
                        if std::str::from_utf8(b).is_err() {
                            push("C17", "invalid-utf8", "", format!("{:02x?}", b));
                        }
                    }
                }
                continue;
            }
            if got.len() != ents.len() {
                push("C17", "lfn-listing-length", "", format!("library {} entries, reader {}", got.len(), ents.len()));
                break;
            }
            for ((de, s), e) in got.iter().zip(ents.iter()) {
                if !crate::exec_dirs::same_name(&de.name, &e.name) {
                    push("C17", "lfn-listing-order", "", String::new());
                    break;
                }
                if let Some(b) = s {
                    if std::str::from_utf8(b).is_err() {
                        push("C17", "invalid-utf8", "", format!("{}: {:02x?}", fatspec::name_str(&e.name), b));
                        continue;
                    }
                }
                let (frags, strict) = match &e.lfn {
                    LfnVerdict::None => (None, true),
                    LfnVerdict::Due(f) => (Some(f), true),
                    LfnVerdict::Either(f) => (Some(f), false),
                };
                match (frags, s) {
                    (None, Some(b)) => push("C17", "long-name-reported-without-valid-run", "", format!("{}: reported {:?}", fatspec::name_str(&e.name), String::from_utf8_lossy(b))),
                    (None, None) => {
                        probes.hit("no_long_name_due_none_reported");
                    }
                    (Some(f), got_name) => {
                        let want = fatspec::lfn_expected_string(f);
                        let fits = want.len() <= bs as usize;
                        match got_name {
                            Some(b) => {
                                let gs = String::from_utf8_lossy(b).to_string();
                                if fits {
                                    if gs != want {
                                        let disc = if want.contains('\u{FFFD}') { "with-unpaired-surrogate" } else { "plain" };
                                        push("C17", "long-name-wrong", disc, format!("{}: got {:?} want {:?} (buffer {})", fatspec::name_str(&e.name), gs, want, bs));
                                    } else {
                                        probes.hit("long_name_correct");
                                        if want.contains('\u{FFFD}') {
                                            probes.hit("long_name_with_replacement_char_correct");
                                        }
                                        if want.chars().any(|c| c as u32 > 0xFFFF) {
                                            probes.hit("long_name_with_surrogate_pair_correct");
                                        }
                                    }
                                } else if !gs.is_empty() {
                                    push("C17", "long-name-overflow-not-empty", "", format!("{}: got {:?} for a {}-byte name in a {}-byte buffer", fatspec::name_str(&e.name), gs, want.len(), bs));
                                } else {
                                    probes.hit("long_name_did_not_fit_empty_reported");
                                }
                            }
                            None => {
                                if strict && fits {
                                    push("C17", "long-name-missing", "", format!("{}: a complete matching run of {} fragments precedes the entry, want {:?}", fatspec::name_str(&e.name), f.len(), want));
                                }
                            }
                        }
                    }
                }
            }
        }
    }
    out.nontrivial = !ents.is_empty();
    for e in &ents {
        crate::rng::fnv_add(&mut h, &e.raw);
    }
    out.ev_hash = h;
    out.probes = probes;
    out.viols = viols;
    out.dev_calls = ro.reads.get();
    out
}

pub fn dir_case(prop: &'static str, seed: u64, thorough: bool) -> CaseOutcome {
    let c = gen_case(seed, thorough);
    dir_eval(prop, &c)
}

pub fn dir_replay(prop: &'static str, v: &serde_json::Value) -> Result<CaseOutcome, String> {
    let c: DirCase = serde_json::from_value(v.clone()).map_err(|e| e.to_string())?;
    Ok(dir_eval(prop, &c))
}

/// Minimise: drop slots (keeping the violation signature), then drop flips and buffer sizes.
pub fn dir_minimise(prop: &'static str, case: &DirCase, sig: &str) -> DirCase {
    let test = |c: &DirCase| dir_eval(prop, c).viols.iter().any(|v| v.prop == prop && v.signature() == sig);
    let mut best = case.clone();
    let mut chunk = (best.slots.len() / 2).max(1);
    let mut tries = 0;
    while tries < 400 {
        let mut i = 0;
        let mut removed = false;
        while i < best.slots.len() && tries < 400 {
            let mut c = best.clone();
            let end = (i + chunk).min(c.slots.len());
            c.slots.drain(i..end);
            c.flips.clear();
            tries += 1;
            let ok = if best.flips.is_empty() { test(&c) } else { false };
            if ok {
                best = c;
                removed = true;
            } else {
                i += chunk;
            }
        }
        if chunk == 1 && !removed {
            break;
        }
        chunk = (chunk / 2).max(1);
        if best.flips.len() > 0 {
            break;
        }
    }
    for b in [vec![780u16], vec![0], vec![64]] {
        let mut c = best.clone();
        c.bufs = b;
        if test(&c) {
            best = c;
            break;
        }
    }
    best
}
