//! Per-call monitors over the write log and the medium: C03 (fsck), C04 (write
//! confinement), C05 (space accounting), C16 (FAT copies, FSInfo).

use crate::fatspec::{self, FatVal, FsckOpts};
use crate::disk::Blk;
use crate::world::*;

#[derive(Clone, Copy, PartialEq, Eq, Debug)]
pub enum Region {
    Outside,
    Mbr,
    Boot,
    Reserved,
    FsInfo,
    Fat(u32),
    Root,
    Data(u32),
    Tail,
}

impl<'a> World<'a> {
    pub fn region_of(&self, blk: u32) -> (Option<usize>, Region) {
        if blk == 0 {
            return (None, Region::Mbr);
        }
        for (vi, v) in self.vols.iter().enumerate() {
            let g = &v.geom;
            if blk < g.part_lba || blk >= g.part_lba + g.total {
                continue;
            }
            if blk == g.part_lba {
                return (Some(vi), Region::Boot);
            }
            if g.fat32 && blk == g.fsinfo {
                return (Some(vi), Region::FsInfo);
            }
            if blk < g.first_fat {
                return (Some(vi), Region::Reserved);
            }
            if blk < g.root_dir_start {
                return (Some(vi), Region::Fat((blk - g.first_fat) / g.fat_size));
            }
            if blk < g.first_data {
                return (Some(vi), Region::Root);
            }
            if let Some(c) = g.block_cluster(blk) {
                return (Some(vi), Region::Data(c));
            }
            return (Some(vi), Region::Tail);
        }
        (None, Region::Outside)
    }

    /// C04: every write of the call must stay inside the volume, inside the proper region
    /// and inside the bytes the call may change.
    pub fn monitor_c04(&mut self, eff: &CallEffect, allow: &Allow, opk: &'static str) {
        let mut found: Vec<(String, String, String)> = Vec::new();
        {
            let st = self.disk.st.borrow();
            let log = &st.log[self.log_mark..];
            // a refused call is judged on its net effect ("changes nothing on the medium"): writes that are
            // undone again before the call returns (allocate, fail, release) leave the medium as it was
            let mut net_changed: std::collections::BTreeSet<u32> = std::collections::BTreeSet::new();
            if allow.refused {
                let mut first_pre: std::collections::BTreeMap<u32, Blk> = std::collections::BTreeMap::new();
                for e in log {
                    if e.write && e.applied {
                        if let Some(p) = &e.pre {
                            first_pre.entry(e.block).or_insert(**p);
                        }
                    }
                }
                for (b, pre) in first_pre {
                    if st.image.get(b) != pre {
                        // the contents of a cluster that is free before and after the call are nobody's data
                        if let (Some(vi), Region::Data(c)) = self.region_of(b) {
                            if self.vols[vi].fat.val(c) == FatVal::Free && self.was_free_before(eff, vi, c) {
                                continue;
                            }
                        }
                        net_changed.insert(b);
                    }
                }
            }
            for e in log {
                if !e.write {
                    continue;
                }
                let (vi, reg) = self.region_of(e.block);
                if !e.applied && e.pre.is_none() {
                    // out-of-device write attempt
                    found.push(("write-outside-device".into(), opk.into(), format!("block {}", e.block)));
                    continue;
                }
                let (pre, data) = match (&e.pre, &e.data) {
                    (Some(p), Some(d)) => (p, d),
                    _ => continue,
                };
                let diff = blk_diff(pre, data);
                if allow.refused && !net_changed.contains(&e.block) {
                    continue;
                }
                if allow.read_only && !diff.is_empty() {
                    found.push((if allow.refused { "refused-call-wrote".into() } else { "readonly-call-wrote".into() }, opk.into(), format!("block {} ({:?}), {} bytes differ", e.block, reg, diff.len())));
                    continue;
                }
                if vi.is_none() || (allow.vol.is_some() && vi != allow.vol) {
                    found.push(("write-outside-volume".into(), format!("{}:{:?}", opk, reg_kind(reg)), format!("block {} region {:?} vol {:?} target {:?}", e.block, reg, vi, allow.vol)));
                    continue;
                }
                let vi = vi.unwrap();
                let g = &self.vols[vi].geom;
                match reg {
                    Region::Mbr | Region::Outside | Region::Boot | Region::Reserved | Region::Tail => {
                        found.push(("write-forbidden-region".into(), format!("{}:{:?}", opk, reg_kind(reg)), format!("block {} region {:?}", e.block, reg)));
                    }
                    Region::FsInfo => {
                        if diff.iter().any(|&p| !(488..496).contains(&p)) {
                            found.push(("fsinfo-foreign-bytes".into(), opk.into(), format!("bytes {:?}", &diff[..diff.len().min(8)])));
                        }
                    }
                    Region::Fat(copy) => {
                        let eb = g.entry_bytes() as usize;
                        let per = 512 / eb;
                        let first = ((e.block - g.first_fat) % g.fat_size) as usize * per;
                        let mut seen = std::collections::BTreeSet::new();
                        for &p in &diff {
                            let c = (first + p / eb) as u32;
                            if !seen.insert(c) {
                                continue;
                            }
                            if c < 2 {
                                found.push(("fat-reserved-entry".into(), opk.into(), format!("entry {} copy {}", c, copy)));
                            } else if c >= g.clusters + 2 {
                                found.push(("fat-slack-entry".into(), opk.into(), format!("entry {} >= {} copy {}", c, g.clusters + 2, copy)));
                            } else {
                                if g.fat32 {
                                    let o = (p / 4) * 4;
                                    if (pre[o + 3] ^ data[o + 3]) & 0xF0 != 0 {
                                        found.push(("fat-high-nibble".into(), opk.into(), format!("entry {}", c)));
                                    }
                                }
                                if allow.extend_only {
                                    // a write appends to a chain: free -> used and end-of-chain -> link are its only business
                                    let o = (p / eb) * eb;
                                    let prev = if eb == 2 { u16::from_le_bytes([pre[o], pre[o + 1]]) as u32 } else { u32::from_le_bytes([pre[o], pre[o + 1], pre[o + 2], pre[o + 3]]) & 0x0FFF_FFFF };
                                    if prev >= 2 && prev < g.clusters + 2 {
                                        found.push(("fat-live-link-rewired".into(), opk.into(), format!("entry {} copy {} pointed to cluster {} before the write and was changed", c, copy, prev)));
                                    }
                                }
                                if !allow.fat_clusters.contains(&c) && !self.was_free_before(eff, vi, c) {
                                    found.push(("fat-foreign-entry".into(), opk.into(), format!("entry {} copy {} not in the call's chains and not free before", c, copy)));
                                }
                            }
                        }
                    }
                    Region::Root | Region::Data(_) => {
                        let free_before = match reg {
                            Region::Data(c) => self.was_free_before(eff, vi, c),
                            _ => false,
                        };
                        if free_before {
                            continue;
                        }
                        let range = allow.ranges.get(&e.block).copied();
                        let mut bad: Vec<usize> = Vec::new();
                        for &p in &diff {
                            let in_slot = allow.slots.iter().any(|&(b, o)| b == e.block && p >= o as usize && p < o as usize + 32);
                            let in_range = range.map_or(false, |(lo, hi)| p >= lo && p < hi);
                            if !in_slot && !in_range {
                                bad.push(p);
                            }
                        }
                        if !bad.is_empty() {
                            found.push(("data-foreign-bytes".into(), format!("{}:{}", opk, if matches!(reg, Region::Root) { "root" } else { "data" }), format!("block {} region {:?}: {} foreign bytes, first at {}", e.block, reg, bad.len(), bad[0])));
                        }
                    }
                }
            }
        }
        for (o, d, det) in found {
            let prop = if o == "refused-call-wrote" { "C07" } else { "C04" };
            self.violate(prop, &o, &d, det);
        }
    }

    /// C16 part 1: after the call, every FAT copy equals the first in the blocks the call wrote.
    pub fn monitor_c16_copies(&mut self, opk: &'static str) {
        let mut found = Vec::new();
        {
            let st = self.disk.st.borrow();
            let log = &st.log[self.log_mark..];
            let mut rel: std::collections::BTreeSet<(usize, u32)> = std::collections::BTreeSet::new();
            for e in log {
                if !e.write || !e.applied {
                    continue;
                }
                if let (Some(vi), Region::Fat(_)) = self.region_of(e.block) {
                    let g = &self.vols[vi].geom;
                    rel.insert((vi, (e.block - g.first_fat) % g.fat_size));
                }
            }
            for (vi, r) in rel {
                let g = &self.vols[vi].geom;
                let b0 = st.image.get(g.first_fat + r);
                for copy in 1..g.num_fats {
                    let b = st.image.get(g.first_fat + copy * g.fat_size + r);
                    if b != b0 {
                        found.push(format!("vol {} FAT sector {} copy {} differs", vi, r, copy));
                    }
                }
            }
        }
        for d in found {
            self.violate("C16", "fat-copies-differ", opk, d);
        }
    }

    /// C16 part 2: FSInfo record judged after a call that stores it.
    pub fn monitor_c16_info(&mut self, vol: usize, opk: &'static str) {
        let v = &self.vols[vol];
        if !v.geom.fat32 {
            return;
        }
        let (count0, _hint0, free0) = match v.info_at_mount {
            Some(x) => x,
            None => return,
        };
        let (count, hint) = self.disk.with_image(|img| (img.u32_at(v.geom.fsinfo, 488), img.u32_at(v.geom.fsinfo, 492)));
        let free_now = v.free;
        let n = v.geom.clusters + 2;
        let mut found = Vec::new();
        if count0 == 0xFFFF_FFFF {
            if count != 0xFFFF_FFFF {
                found.push(("fsinfo-count", "unknown-became-known".to_string(), format!("stored {}", count)));
            }
        } else {
            let want = count0 as i64 + free_now as i64 - free0 as i64;
            // a stale count may have hit zero in between (the library saturates); then nothing exact can be demanded
            let lowest = count0 as i64 + v.min_free_since_mount as i64 - free0 as i64;
            // ... or the top (0xFFFFFFFF on the medium means "unknown")
            let highest = count0 as i64 + v.max_free_since_mount as i64 - free0 as i64;
            if want >= 0 && want < 0xFFFF_FFFF && lowest >= 0 && highest < 0xFFFF_FFFF {
                if count as i64 != want {
                    found.push(("fsinfo-count", format!("{}:delta{}", opk, (count as i64 - want).clamp(-9, 9)), format!("stored {} expected {} (at mount {}, free then {}, free now {})", count, want, count0, free0, free_now)));
                }
            }
        }
        if hint != 0xFFFF_FFFF && !(hint >= 2 && hint < n) {
            // a hint that was already stored at mount and is still there is the formatter's, not the library's
            if hint != _hint0 {
                found.push(("fsinfo-hint", opk.to_string(), format!("stored hint {} outside [2,{})", hint, n)));
            }
        }
        for (o, d, det) in found {
            self.violate("C16", o, &d, det);
        }
    }

    /// C03 + C05: walk the volume, check structure and space accounting.
    pub fn monitor_structure(&mut self, vol: usize, opk: &'static str) {
        let v = &self.vols[vol];
        let g = v.geom.clone();
        let mut opts = FsckOpts::default();
        for s in &self.fslots {
            if let Some((_, fh)) = &s.cur {
                if fh.vol == vol {
                    if let Some(f) = self.file_ref(fh.vol, fh.dir, &fh.name) {
                        let len = match &f.data {
                            Content::Mem(d) => d.len() as u32,
                            Content::Lazy(n) => *n,
                        };
                        opts.pending.insert(f.loc, len);
                    }
                }
            }
        }
        let tree = self.disk.with_image(|img| fatspec::walk(img, &g, &v.fat, &opts));
        let mut found: Vec<(&'static str, String, String, String)> = Vec::new();
        for p in &tree.problems {
            found.push(("C03", format!("fsck/{}", p.kind), opk.to_string(), p.detail.clone()));
        }
        // chains of open files whose head is not (yet) referenced from the medium
        let mut reach = tree.reachable.clone();
        let mut reach_count = tree.reachable_count;
        for s in &self.fslots {
            if let Some((_, fh)) = &s.cur {
                if fh.vol != vol || fh.chain.is_empty() {
                    continue;
                }
                let (ch, err) = fatspec::chain(&v.fat, &g, fh.chain[0]);
                if let Some(e) = err {
                    found.push(("C03", "open-file-chain".into(), opk.to_string(), format!("{:?}", e)));
                }
                let len = self.file_ref(fh.vol, fh.dir, &fh.name).map_or(0, |f| match &f.data {
                    Content::Mem(d) => d.len() as u64,
                    Content::Lazy(n) => *n as u64,
                });
                if (ch.len() as u64) * (g.cluster_bytes() as u64) < len {
                    found.push(("C03", "open-file-chain-short".into(), opk.to_string(), format!("{} clusters for {} bytes", ch.len(), len)));
                }
                if ch.is_empty() {
                    continue;
                }
                let already = reach[ch[0] as usize];
                if !already {
                    for &c in &ch {
                        if reach[c as usize] {
                            found.push(("C03", "fsck/cross-link".into(), opk.to_string(), format!("open file cluster {} also owned by the tree", c)));
                        } else {
                            reach[c as usize] = true;
                            reach_count += 1;
                        }
                    }
                }
            }
        }
        // C05: used == reachable
        let lost_seen = v.lost_seen;
        let mut new_lost: Option<u32> = if v.used == reach_count { Some(0) } else { None };
        if v.used != reach_count {
            let mut lost = 0u32;
            let mut ghost = 0u32;
            let mut first = 0;
            for c in 2..v.fat.n() {
                let used = !matches!(v.fat.val(c), FatVal::Free | FatVal::Bad);
                if used && !reach[c as usize] {
                    lost += 1;
                    if first == 0 {
                        first = c;
                    }
                }
                if !used && reach[c as usize] {
                    ghost += 1;
                }
            }
            if lost > lost_seen {
                found.push(("C05", "clusters-leaked".into(), opk.to_string(), format!("{} clusters marked used but unreachable (first {}), {} before this call", lost, first, lost_seen)));
            }
            new_lost = Some(lost);
            if ghost > 0 {
                found.push(("C05", "clusters-reachable-but-free".into(), opk.to_string(), format!("{}", ghost)));
            }
        }
        // abstract state hash for the evidence
        let mut h = 0xcbf29ce484222325u64;
        crate::rng::fnv_add(&mut h, &v.used.to_le_bytes());
        crate::rng::fnv_add(&mut h, &(tree.dirs.len() as u32).to_le_bytes());
        crate::rng::fnv_add(&mut h, &(tree.files.len() as u32).to_le_bytes());
        crate::rng::fnv_add(&mut h, &[self.open_dir_count() as u8, self.open_file_count() as u8, self.open_vol_count() as u8]);
        for d in &tree.dirs {
            crate::rng::fnv_add(&mut h, &(d.ents.len() as u32).to_le_bytes());
            crate::rng::fnv_add(&mut h, &(d.chain.len() as u32).to_le_bytes());
        }
        self.state_hashes.insert(h);
        if let Some(l) = new_lost {
            self.vols[vol].lost_seen = l;
        }
        for (p, o, d, det) in found {
            self.violate(p, &o, &d, det);
        }
    }
}

fn reg_kind(r: Region) -> &'static str {
    match r {
        Region::Outside => "outside",
        Region::Mbr => "mbr",
        Region::Boot => "boot",
        Region::Reserved => "reserved",
        Region::FsInfo => "fsinfo",
        Region::Fat(_) => "fat",
        Region::Root => "root",
        Region::Data(_) => "data",
        Region::Tail => "tail",
    }
}
