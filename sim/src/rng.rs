//! The only source of randomness in the simulator: SplitMix64 seeding xoshiro256**.
//! No wall clock, no OS entropy. Logging never draws from it.

#[derive(Clone, Debug)]
pub struct Rng {
    s: [u64; 4],
}

pub fn splitmix(x: &mut u64) -> u64 {
    *x = x.wrapping_add(0x9E37_79B9_7F4A_7C15);
    let mut z = *x;
    z = (z ^ (z >> 30)).wrapping_mul(0xBF58_476D_1CE4_E5B9);
    z = (z ^ (z >> 27)).wrapping_mul(0x94D0_49BB_1331_11EB);
    z ^ (z >> 31)
}

/// Derive the seed of run `i` of property `tag` from the batch seed.
pub fn mix(seed: u64, tag: u64, i: u64) -> u64 {
    let mut x = seed ^ tag.wrapping_mul(0xD6E8_FEB8_6659_FD93) ^ i.wrapping_mul(0xA076_1D64_78BD_642F);
    let a = splitmix(&mut x);
    let b = splitmix(&mut x);
    a ^ b.rotate_left(17)
}

pub fn tag_of(s: &str) -> u64 {
    // FNV-1a
    let mut h: u64 = 0xcbf29ce484222325;
    for b in s.bytes() {
        h ^= b as u64;
        h = h.wrapping_mul(0x100000001b3);
    }
    h
}

impl Rng {
    pub fn new(seed: u64) -> Rng {
        let mut x = seed;
        let s = [splitmix(&mut x), splitmix(&mut x), splitmix(&mut x), splitmix(&mut x)];
        Rng { s }
    }
    pub fn next_u64(&mut self) -> u64 {
        let r = self.s[1].wrapping_mul(5).rotate_left(7).wrapping_mul(9);
        let t = self.s[1] << 17;
        self.s[2] ^= self.s[0];
        self.s[3] ^= self.s[1];
        self.s[1] ^= self.s[2];
        self.s[0] ^= self.s[3];
        self.s[2] ^= t;
        self.s[3] = self.s[3].rotate_left(45);
        r
    }
    pub fn next_u32(&mut self) -> u32 {
        (self.next_u64() >> 32) as u32
    }
    /// Uniform in 0..n (n > 0).
    pub fn below(&mut self, n: u64) -> u64 {
        debug_assert!(n > 0);
        // multiply-shift; bias is irrelevant here
        ((self.next_u64() as u128 * n as u128) >> 64) as u64
    }
    pub fn range(&mut self, lo: u64, hi_incl: u64) -> u64 {
        lo + self.below(hi_incl - lo + 1)
    }
    pub fn usize_below(&mut self, n: usize) -> usize {
        self.below(n as u64) as usize
    }
    /// true with probability num/den
    pub fn chance(&mut self, num: u64, den: u64) -> bool {
        self.below(den) < num
    }
    pub fn pick<'a, T>(&mut self, xs: &'a [T]) -> &'a T {
        &xs[self.usize_below(xs.len())]
    }
    /// index drawn according to integer weights
    pub fn weighted(&mut self, w: &[u32]) -> usize {
        let total: u64 = w.iter().map(|&x| x as u64).sum();
        debug_assert!(total > 0);
        let mut r = self.below(total);
        for (i, &x) in w.iter().enumerate() {
            if r < x as u64 {
                return i;
            }
            r -= x as u64;
        }
        w.len() - 1
    }
    pub fn fork(&mut self) -> Rng {
        Rng::new(self.next_u64())
    }
    pub fn fill(&mut self, buf: &mut [u8]) {
        for ch in buf.chunks_mut(8) {
            let v = self.next_u64().to_le_bytes();
            ch.copy_from_slice(&v[..ch.len()]);
        }
    }
}

/// Deterministic payload bytes for write operations: byte `i` of payload `seed`.
/// Cheap, and every (seed, i) pair is attributable.
/// payload seeds from here on mean "a one and then zeros": whole aligned blocks of zeros inside a write
pub const ZERO_PAYLOAD: u32 = 0xFFF0_0000;

pub fn payload(seed: u32, len: usize) -> Vec<u8> {
    if seed >= ZERO_PAYLOAD {
        let mut out = vec![0u8; len];
        if let Some(b) = out.first_mut() {
            *b = 1;
        }
        return out;
    }
    let mut out = Vec::with_capacity(len);
    let mut x = (seed as u64) << 32 | 0x1234_5678;
    let mut i = 0;
    while i < len {
        let v = splitmix(&mut x).to_le_bytes();
        let n = (len - i).min(8);
        out.extend_from_slice(&v[..n]);
        i += n;
    }
    // never produce an all-zero payload for non-empty writes
    if let Some(b) = out.first_mut() {
        *b |= 1;
    }
    out
}

pub fn fnv(bytes: &[u8]) -> u64 {
    let mut h: u64 = 0xcbf29ce484222325;
    for &b in bytes {
        h ^= b as u64;
        h = h.wrapping_mul(0x100000001b3);
    }
    h
}

pub fn fnv_add(h: &mut u64, bytes: &[u8]) {
    for &b in bytes {
        *h ^= b as u64;
        *h = h.wrapping_mul(0x100000001b3);
    }
}
