//! SimDisk: the simulated block device behind the `BlockDevice` seam.
//! Sparse image + complete call log + fault plan. Deterministic.

use embedded_sdmmc::{Block, BlockCount, BlockDevice, BlockIdx};
use std::cell::RefCell;
use std::collections::BTreeMap;

pub type Blk = [u8; 512];

#[derive(Clone)]
pub struct Image {
    pub num_blocks: u32,
    pub stale_fill: bool,
    blocks: BTreeMap<u32, Box<Blk>>,
}

/// Content of a block that was never written: either zeros, or sixteen
/// plausible-looking live 8.3 directory entries ("stale directory data"), so
/// that any code path exposing an uninitialised cluster as a directory shows
/// names nobody created.
pub fn default_block(stale: bool, idx: u32) -> Blk {
    let mut b = [0u8; 512];
    if stale {
        for s in 0..16usize {
            let e = &mut b[s * 32..s * 32 + 32];
            let name = format!("STL{:05X}S{:02}", idx & 0xFFFFF, s);
            e[..11].copy_from_slice(name.as_bytes());
            e[11] = 0x20;
            e[26] = 3; // first cluster lo
            e[28] = 100; // size
        }
    }
    b
}

pub fn is_stale_name(name: &[u8]) -> bool {
    name.len() >= 11 && &name[..3] == b"STL" && name[8] == b'S'
}

impl Image {
    pub fn new(num_blocks: u32, stale_fill: bool) -> Image {
        Image { num_blocks, stale_fill, blocks: BTreeMap::new() }
    }
    pub fn get(&self, idx: u32) -> Blk {
        match self.blocks.get(&idx) {
            Some(b) => **b,
            None => default_block(self.stale_fill, idx),
        }
    }
    pub fn set(&mut self, idx: u32, data: &Blk) {
        match self.blocks.get_mut(&idx) {
            Some(b) => **b = *data,
            None => {
                self.blocks.insert(idx, Box::new(*data));
            }
        }
    }
    pub fn is_materialised(&self, idx: u32) -> bool {
        self.blocks.contains_key(&idx)
    }
    pub fn materialised(&self) -> usize {
        self.blocks.len()
    }
    pub fn patch(&mut self, idx: u32, off: usize, bytes: &[u8]) {
        let mut b = self.get(idx);
        b[off..off + bytes.len()].copy_from_slice(bytes);
        self.set(idx, &b);
    }
    pub fn u16_at(&self, idx: u32, off: usize) -> u16 {
        let b = self.get(idx);
        u16::from_le_bytes([b[off], b[off + 1]])
    }
    pub fn u32_at(&self, idx: u32, off: usize) -> u32 {
        let b = self.get(idx);
        u32::from_le_bytes([b[off], b[off + 1], b[off + 2], b[off + 3]])
    }
    pub fn hash(&self) -> u64 {
        let mut h = 0xcbf29ce484222325u64;
        for (k, v) in self.blocks.iter() {
            crate::rng::fnv_add(&mut h, &k.to_le_bytes());
            crate::rng::fnv_add(&mut h, &v[..]);
        }
        h
    }
    pub fn keys(&self) -> impl Iterator<Item = u32> + '_ {
        self.blocks.keys().copied()
    }
}

#[derive(Debug, Clone, Copy, PartialEq, Eq)]
pub enum DiskError {
    Injected,
    OutOfRange,
    Dead,
}

#[derive(Debug, Clone, Copy, PartialEq, Eq, serde::Serialize, serde::Deserialize)]
pub enum FaultKind {
    /// Fail the call: a read gets its buffer scribbled and Err; a write is lost and Err.
    Fail,
    /// Fail the call: a read as above; a write is applied to the medium but reports Err.
    FailApplied,
}

pub struct LogEntry {
    pub call: u64,
    pub write: bool,
    pub block: u32,
    pub ok: bool,
    /// for writes: did the payload reach the medium
    pub applied: bool,
    pub pre: Option<Box<Blk>>,
    pub data: Option<Box<Blk>>,
}

#[derive(Default, Clone, Debug)]
pub struct DiskStats {
    pub reads: u64,
    pub writes: u64,
    pub multi_block_calls: u64,
    pub out_of_range: u64,
    pub faults_fired_read: u64,
    pub faults_fired_write_lost: u64,
    pub faults_fired_write_applied: u64,
    pub dead_calls: u64,
    pub dropped_after_power_cut: u64,
}

pub struct DiskState {
    pub image: Image,
    pub log: Vec<LogEntry>,
    pub calls: u64,
    pub faults: BTreeMap<u64, FaultKind>,
    pub dead_from: Option<u64>,
    /// Some(k): only the first k writes (counted from `writes_seen == 0`) reach the medium; later ones return Ok and vanish
    pub power_cut_after: Option<u64>,
    pub writes_seen: u64,
    pub call_cap: u64,
    pub fired: Vec<(u64, FaultKind, bool)>,
    pub scribble: u64,
    pub stats: DiskStats,
    pub keep_log: bool,
    /// huge-file cases walk hundred-thousand-entry chains: only writes are logged there
    pub skip_read_log: bool,
}

pub struct SimDisk {
    pub st: RefCell<DiskState>,
}

/// Panic payload used when a call exceeds the device-call cap (treated as a hang).
pub struct HangMarker;

impl SimDisk {
    pub fn new(image: Image) -> SimDisk {
        SimDisk {
            st: RefCell::new(DiskState {
                image,
                log: Vec::new(),
                calls: 0,
                faults: BTreeMap::new(),
                dead_from: None,
                power_cut_after: None,
                writes_seen: 0,
                call_cap: u64::MAX,
                fired: Vec::new(),
                scribble: 0x5eed,
                stats: DiskStats::default(),
                keep_log: true,
                skip_read_log: false,
            }),
        }
    }
    pub fn calls(&self) -> u64 {
        self.st.borrow().calls
    }
    pub fn log_len(&self) -> usize {
        self.st.borrow().log.len()
    }
    pub fn image_get(&self, idx: u32) -> Blk {
        self.st.borrow().image.get(idx)
    }
    pub fn set_cap(&self, cap: u64) {
        self.st.borrow_mut().call_cap = cap;
    }
    pub fn with_image<R>(&self, f: impl FnOnce(&Image) -> R) -> R {
        f(&self.st.borrow().image)
    }
    pub fn with_image_mut<R>(&self, f: impl FnOnce(&mut Image) -> R) -> R {
        f(&mut self.st.borrow_mut().image)
    }
    /// faults that fired so far (injected failures and calls refused while dead)
    pub fn fired_total(&self) -> u64 {
        let st = self.st.borrow();
        st.fired.len() as u64 + st.stats.dead_calls
    }
}

impl BlockDevice for &SimDisk {
    type Error = DiskError;

    fn read(&self, blocks: &mut [Block], start: BlockIdx) -> Result<(), DiskError> {
        let mut st = self.st.borrow_mut();
        if blocks.len() != 1 {
            st.stats.multi_block_calls += 1;
        }
        for (i, blk) in blocks.iter_mut().enumerate() {
            let idx = start.0.wrapping_add(i as u32);
            let call = st.calls;
            st.calls += 1;
            if st.calls > st.call_cap {
                drop(st);
                std::panic::panic_any(HangMarker);
            }
            st.stats.reads += 1;
            let fault = st.faults.get(&call).copied();
            let dead = st.dead_from.map_or(false, |d| call >= d);
            if idx >= st.image.num_blocks {
                st.stats.out_of_range += 1;
                if st.keep_log && !st.skip_read_log {
                    st.log.push(LogEntry { call, write: false, block: idx, ok: false, applied: false, pre: None, data: None });
                }
                return Err(DiskError::OutOfRange);
            }
            if dead || fault.is_some() {
                // scribble the buffer: the caller must not trust it
                let mut x = st.scribble ^ call;
                for ch in blk.contents.chunks_mut(8) {
                    let v = crate::rng::splitmix(&mut x).to_le_bytes();
                    ch.copy_from_slice(&v[..ch.len()]);
                }
                if dead {
                    st.stats.dead_calls += 1;
                } else {
                    st.stats.faults_fired_read += 1;
                    let f = fault.unwrap();
                    st.fired.push((call, f, false));
                }
                if st.keep_log && !st.skip_read_log {
                    st.log.push(LogEntry { call, write: false, block: idx, ok: false, applied: false, pre: None, data: None });
                }
                return Err(if dead { DiskError::Dead } else { DiskError::Injected });
            }
            blk.contents = st.image.get(idx);
            if st.keep_log && !st.skip_read_log {
                st.log.push(LogEntry { call, write: false, block: idx, ok: true, applied: false, pre: None, data: None });
            }
        }
        Ok(())
    }

    fn write(&self, blocks: &[Block], start: BlockIdx) -> Result<(), DiskError> {
        let mut st = self.st.borrow_mut();
        if blocks.len() != 1 {
            st.stats.multi_block_calls += 1;
        }
        for (i, blk) in blocks.iter().enumerate() {
            let idx = start.0.wrapping_add(i as u32);
            let call = st.calls;
            st.calls += 1;
            if st.calls > st.call_cap {
                drop(st);
                std::panic::panic_any(HangMarker);
            }
            st.stats.writes += 1;
            let fault = st.faults.get(&call).copied();
            let dead = st.dead_from.map_or(false, |d| call >= d);
            if idx >= st.image.num_blocks {
                st.stats.out_of_range += 1;
                if st.keep_log {
                    st.log.push(LogEntry { call, write: true, block: idx, ok: false, applied: false, pre: None, data: Some(Box::new(blk.contents)) });
                }
                return Err(DiskError::OutOfRange);
            }
            if dead {
                st.stats.dead_calls += 1;
                if st.keep_log {
                    st.log.push(LogEntry { call, write: true, block: idx, ok: false, applied: false, pre: None, data: Some(Box::new(blk.contents)) });
                }
                return Err(DiskError::Dead);
            }
            let pre = st.image.get(idx);
            match fault {
                Some(FaultKind::Fail) => {
                    st.stats.faults_fired_write_lost += 1;
                    st.fired.push((call, FaultKind::Fail, true));
                    if st.keep_log {
                        st.log.push(LogEntry { call, write: true, block: idx, ok: false, applied: false, pre: Some(Box::new(pre)), data: Some(Box::new(blk.contents)) });
                    }
                    return Err(DiskError::Injected);
                }
                Some(FaultKind::FailApplied) => {
                    st.stats.faults_fired_write_applied += 1;
                    st.fired.push((call, FaultKind::FailApplied, true));
                    st.image.set(idx, &blk.contents);
                    st.writes_seen += 1;
                    if st.keep_log {
                        st.log.push(LogEntry { call, write: true, block: idx, ok: false, applied: true, pre: Some(Box::new(pre)), data: Some(Box::new(blk.contents)) });
                    }
                    return Err(DiskError::Injected);
                }
                None => {}
            }
            let cut = st.power_cut_after.map_or(false, |k| st.writes_seen >= k);
            st.writes_seen += 1;
            if cut {
                st.stats.dropped_after_power_cut += 1;
                if st.keep_log {
                    st.log.push(LogEntry { call, write: true, block: idx, ok: true, applied: false, pre: Some(Box::new(pre)), data: Some(Box::new(blk.contents)) });
                }
                continue;
            }
            st.image.set(idx, &blk.contents);
            if st.keep_log {
                st.log.push(LogEntry { call, write: true, block: idx, ok: true, applied: true, pre: Some(Box::new(pre)), data: Some(Box::new(blk.contents)) });
            }
        }
        Ok(())
    }

    fn num_blocks(&self) -> Result<BlockCount, DiskError> {
        Ok(BlockCount(self.st.borrow().image.num_blocks))
    }
}

/// A read-only view of an image for "fresh mount" oracles. Any write through it is
/// remembered (the oracle's own mount must never write).
pub struct RoDisk<'a> {
    pub image: &'a Image,
    pub wrote: std::cell::Cell<u32>,
    pub reads: std::cell::Cell<u64>,
    pub cap: u64,
    /// Some(other medium): the device serves that medium instead (medium exchange: the harness clears this and the
    /// caller reaches for `VolumeManager::device()`)
    pub alt: std::cell::Cell<Option<&'a Image>>,
    /// Some(first block): an older state of the same medium is served, in which every directory slot from that
    /// block on reads as deleted (what another host sharing the card saw before it stored the current entries)
    pub old_from: std::cell::Cell<Option<u32>>,
}

impl<'a> RoDisk<'a> {
    pub fn new(image: &'a Image) -> RoDisk<'a> {
        RoDisk { image, wrote: std::cell::Cell::new(0), reads: std::cell::Cell::new(0), cap: 50_000_000, alt: std::cell::Cell::new(None), old_from: std::cell::Cell::new(None) }
    }
}

impl<'a, 'b> BlockDevice for &'b RoDisk<'a> {
    type Error = DiskError;
    fn read(&self, blocks: &mut [Block], start: BlockIdx) -> Result<(), DiskError> {
        for (i, blk) in blocks.iter_mut().enumerate() {
            let idx = start.0.wrapping_add(i as u32);
            self.reads.set(self.reads.get() + 1);
            if self.reads.get() > self.cap {
                std::panic::panic_any(HangMarker);
            }
            let image = self.alt.get().unwrap_or(self.image);
            if idx >= image.num_blocks {
                return Err(DiskError::OutOfRange);
            }
            blk.contents = image.get(idx);
            if let Some(from) = self.old_from.get() {
                if idx >= from {
                    for s in 0..16 {
                        if blk.contents[s * 32] != 0 {
                            blk.contents[s * 32] = 0xE5;
                        }
                    }
                }
            }
        }
        Ok(())
    }
    fn write(&self, _blocks: &[Block], _start: BlockIdx) -> Result<(), DiskError> {
        self.wrote.set(self.wrote.get() + 1);
        Err(DiskError::Dead)
    }
    fn num_blocks(&self) -> Result<BlockCount, DiskError> {
        Ok(BlockCount(self.alt.get().unwrap_or(self.image).num_blocks))
    }
}
