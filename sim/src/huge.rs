//! Huge-file histories (part of C01): one pre-existing file of 2 GiB .. 4 GiB-1 on a FAT32
//! volume with 16..64 KiB clusters, so that offsets beyond 2^31 and the 4 GiB-1 size limit are
//! reached. The general history engine keeps every file in a byte vector and therefore stays
//! far below these offsets; here the model is "content of the formatted medium (a function of
//! the block number) + overlay of the blocks written through the API".
//!
//! A second, small file sits next to the huge one and must never change.

use crate::batch::CaseOutcome;
use crate::clock::SimClock;
use crate::disk::{Blk, Image, SimDisk};
use crate::fatspec::{self, FatView, Geom};
use crate::fs::{err_name, make_fs, Name};
use crate::mkfs::{self, FsInfoKind, VolSpec};
use crate::rng::{self, Rng};
use crate::world::{Probes, Violation};
use embedded_sdmmc::Mode;
use serde::{Deserialize, Serialize};
use std::collections::BTreeMap;

pub const MAX: u64 = u32::MAX as u64;

#[derive(Serialize, Deserialize, Clone, Debug, PartialEq)]
pub enum HOp {
    SeekStart(u64),
    SeekCur(i64),
    SeekEnd(u64),
    Read(u32),
    Write(u32, u32),
    Query,
    Flush,
    /// close and open again: 0 read-only, 1 append, 2 read-write-create-or-append
    Reopen(u8),
}

#[derive(Serialize, Deserialize, Clone, Debug, PartialEq)]
pub struct HugeCase {
    pub huge: bool,
    pub seed: u64,
    pub spc: u8,
    pub lba: u32,
    pub num_fats: u8,
    pub size: u32,
    /// the chain is cut into this many runs, laid out in shuffled order
    pub segs: u8,
    pub spare_clusters: u32,
    pub flavour: u8,
    pub mode0: u8,
    pub ops: Vec<HOp>,
    /// C07 cases: a sub-directory FAR whose first block lies exactly 2^23 blocks (4 GiB) behind the root directory's,
    /// with an empty file TWIN.DAT in the slot that an open file of the root directory (OTHER.DAT) occupies there
    #[serde(default)]
    pub far_twin: bool,
    /// C05 cases: the file is deleted at the end; every cluster of its chain (up to 262144 links) must be free again
    #[serde(default)]
    pub delete_at_end: bool,
}

fn interesting_offset(r: &mut Rng, size: u64, cb: u64) -> u64 {
    let b31 = 1u64 << 31;
    let base = match r.below(10) {
        0 => 0,
        1 => size,
        2 | 3 | 4 => b31,
        5 => size.saturating_sub(cb),
        6 => b31 + cb * r.below(4),
        7 => b31.saturating_sub(cb * r.below(3)),
        8 => (b31 + r.below(size.saturating_sub(b31).max(1))) & !(cb - 1),
        _ => r.below(size + 1),
    };
    let jitter = match r.below(4) {
        0 => 0i64,
        1 => r.range(0, 600) as i64 - 300,
        2 => r.range(0, 6) as i64 - 3,
        _ => (r.range(0, 4) as i64 - 2) * 512,
    };
    let o = base as i64 + jitter;
    o.clamp(0, size as i64 + if r.chance(1, 12) { 3 } else { 0 }) as u64
}

pub fn gen_case(seed: u64) -> HugeCase {
    let mut r = Rng::new(seed ^ 0x4875_6765);
    let spc = *r.pick(&[128u8, 128, 64, 32]);
    let cb = spc as u64 * 512;
    let b31 = 1u64 << 31;
    let size = match r.below(10) {
        0 => MAX,
        1 => MAX - r.below(600),
        2 => MAX - cb + r.below(3),
        3 => b31 + r.below(5),
        4 => b31 - 1 - r.below(700),
        5 => b31 + cb * r.below(6) + r.below(2),
        _ => b31 - 2 * cb + r.below(MAX - b31 + 2 * cb + 1),
    }
    .min(MAX);
    let n_ops = r.range(3, 14) as usize;
    let mut ops = Vec::new();
    let mut cur_size = size;
    for _ in 0..n_ops {
        let op = match r.weighted(&[5, 6, 3, 9, 5, 3, 1, 1]) {
            0 => HOp::SeekStart(interesting_offset(&mut r, cur_size, cb)),
            1 => {
                let d = match r.below(6) {
                    0 => r.range(0, 4000) as i64 - 2000,
                    1 => i32::MAX as i64,
                    2 => i32::MIN as i64,
                    3 => (r.below(8) * cb) as i64 * if r.chance(1, 2) { -1 } else { 1 },
                    4 => r.range(0, 1 << 31) as i64 - (1 << 30),
                    _ => r.range(0, 20) as i64 - 10,
                };
                HOp::SeekCur(d)
            }
            2 => {
                let back = cur_size.saturating_sub(interesting_offset(&mut r, cur_size, cb));
                HOp::SeekEnd(back)
            }
            3 => HOp::Read(*r.pick(&[1u32, 7, 511, 512, 513, 700, 1024, 1500, 2100])),
            4 => {
                let n = *r.pick(&[1u32, 5, 300, 512, 513, 1024, 1300]);
                cur_size = (cur_size + n as u64).min(MAX);
                HOp::Write(n, r.next_u32())
            }
            5 => HOp::Query,
            6 => HOp::Flush,
            _ => HOp::Reopen(r.below(3) as u8),
        };
        ops.push(op);
    }
    HugeCase {
        huge: true,
        seed,
        spc,
        lba: *r.pick(&[1u32, 63, 2048, 8192]),
        num_fats: r.range(1, 2) as u8,
        size: size as u32,
        segs: *r.pick(&[1u8, 1, 2, 3, 5]),
        spare_clusters: r.range(2, 40) as u32,
        flavour: r.below(3) as u8,
        mode0: r.below(3) as u8,
        ops,
        far_twin: false,
        delete_at_end: false,
    }
}

pub struct Built {
    pub img: Image,
    pub g: Geom,
    /// cluster number of the k-th cluster of the file
    pub chain: Vec<u32>,
    pub small_chain: Vec<u32>,
    pub small_data: Vec<u8>,
}

const SMALL_LEN: usize = 1200;

pub fn build(c: &HugeCase) -> Built {
    let cb = c.spc as u64 * 512;
    let need = ((c.size as u64 + cb - 1) / cb) as u32;
    let mut v = VolSpec::plain(true, c.lba);
    v.spc = c.spc;
    v.num_fats = c.num_fats;
    v.fsinfo = FsInfoKind::Unknown;
    // root (1) + small file (1) + huge chain + gaps + spare
    v.clusters = (need + 2 + c.segs as u32 * 3 + c.spare_clusters).max(65525 + 16);
    // the cluster whose first block lies 2^23 blocks behind the root directory's (cluster 2)
    let far = 2 + (1u32 << 23) / c.spc as u32;
    if c.far_twin {
        v.clusters = (v.clusters + 1).max(far + 4);
    }
    let total = v.lba + v.total_blocks() + 4;
    let mut img = Image::new(total, true);
    if c.lba > 0 {
        let mut mbr: Blk = [0u8; 512];
        mbr[510] = 0x55;
        mbr[511] = 0xAA;
        let o = 446;
        mbr[o + 4] = v.ptype;
        mbr[o + 8..o + 12].copy_from_slice(&v.lba.to_le_bytes());
        mbr[o + 12..o + 16].copy_from_slice(&v.total_blocks().to_le_bytes());
        img.set(0, &mbr);
    }
    let out = mkfs::format_volume(&mut img, &v);
    let g = out.geom.clone();
    // layout: cluster 2 root, 3 small file, runs of the huge chain from cluster 4 on, in shuffled order with gaps
    let mut r = Rng::new(c.seed ^ 0x1a40);
    let segs = (c.segs as u32).clamp(1, need.max(1));
    let mut lens = vec![need / segs; segs as usize];
    lens[0] += need - (need / segs) * segs;
    // make one boundary fall exactly on the 2 GiB cluster when there is more than one run
    if segs > 1 {
        let k31 = ((1u64 << 31) / cb) as u32;
        if lens[0] > k31 && k31 > 0 && r.chance(1, 2) {
            let extra = lens[0] - k31;
            lens[0] = k31;
            lens[1] += extra;
        }
    }
    let mut order: Vec<usize> = (0..segs as usize).collect();
    for i in (1..order.len()).rev() {
        let j = r.usize_below(i + 1);
        order.swap(i, j);
    }
    let mut starts = vec![0u32; segs as usize];
    let mut next = 4u32;
    for &s in &order {
        next += r.below(3) as u32;
        starts[s] = next;
        next += lens[s];
    }
    let mut chain = Vec::with_capacity(need as usize);
    for s in 0..segs as usize {
        for k in 0..lens[s] {
            chain.push(starts[s] + k);
        }
    }
    if c.far_twin {
        // keep the far cluster out of the chain
        for x in chain.iter_mut() {
            if *x >= far {
                *x += 1;
            }
        }
    }
    let n = g.clusters + 2;
    let mut fat = vec![0u32; n as usize];
    fat[0] = 0x0FFF_FFF8;
    fat[1] = 0x0FFF_FFFF;
    fat[2] = 0x0FFF_FFFF;
    fat[3] = 0x0FFF_FFFF;
    for w in 0..chain.len() {
        fat[chain[w] as usize] = if w + 1 < chain.len() { chain[w + 1] } else { 0x0FFF_FFFF };
    }
    if c.far_twin {
        fat[far as usize] = 0x0FFF_FFFF;
    }
    for copy in 0..g.num_fats {
        for s in 0..g.fat_size {
            let mut b: Blk = [0u8; 512];
            let mut any = false;
            for e in 0..128u32 {
                let idx = s * 128 + e;
                if idx < n {
                    let val = fat[idx as usize];
                    if val != 0 {
                        any = true;
                    }
                    b[(e * 4) as usize..(e * 4 + 4) as usize].copy_from_slice(&val.to_le_bytes());
                }
            }
            let blk = g.first_fat + copy * g.fat_size + s;
            if any || img.is_materialised(blk) || img.stale_fill {
                img.set(blk, &b);
            }
        }
    }
    // root directory: BIG.BIN, SMALL.DAT, end marker; rest of the root cluster zero
    let mut rootb: Blk = [0u8; 512];
    let mut e = [0u8; 32];
    e[..11].copy_from_slice(b"BIG     BIN");
    e[11] = 0x20;
    let first = chain.first().copied().unwrap_or(0);
    e[20..22].copy_from_slice(&((first >> 16) as u16).to_le_bytes());
    e[26..28].copy_from_slice(&(first as u16).to_le_bytes());
    e[28..32].copy_from_slice(&c.size.to_le_bytes());
    rootb[..32].copy_from_slice(&e);
    let mut e2 = [0u8; 32];
    e2[..11].copy_from_slice(b"SMALL   DAT");
    e2[11] = 0x20;
    e2[26..28].copy_from_slice(&3u16.to_le_bytes());
    e2[28..32].copy_from_slice(&(SMALL_LEN as u32).to_le_bytes());
    rootb[32..64].copy_from_slice(&e2);
    let rb = g.cluster_block(2);
    if c.far_twin {
        let mut e3 = [0u8; 32];
        e3[..11].copy_from_slice(b"FAR        ");
        e3[11] = 0x10;
        e3[20..22].copy_from_slice(&((far >> 16) as u16).to_le_bytes());
        e3[26..28].copy_from_slice(&(far as u16).to_le_bytes());
        rootb[64..96].copy_from_slice(&e3);
        let mut e4 = [0u8; 32];
        e4[..11].copy_from_slice(b"OTHER   DAT");
        e4[11] = 0x20;
        rootb[96..128].copy_from_slice(&e4);
        let mut fb: Blk = [0u8; 512];
        fb[..11].copy_from_slice(b".          ");
        fb[11] = 0x10;
        fb[20..22].copy_from_slice(&((far >> 16) as u16).to_le_bytes());
        fb[26..28].copy_from_slice(&(far as u16).to_le_bytes());
        fb[32..43].copy_from_slice(b"..         ");
        fb[43] = 0x10;
        fb[64] = 0xE5;
        fb[65..75].copy_from_slice(b"ONE    DAT");
        fb[75] = 0x20;
        fb[96..107].copy_from_slice(b"TWIN    DAT");
        fb[107] = 0x20;
        let farb = g.cluster_block(far);
        assert_eq!(farb, rb + (1 << 23));
        img.set(farb, &fb);
        for s in 1..g.spc {
            img.set(farb + s, &[0u8; 512]);
        }
    }
    img.set(rb, &rootb);
    for s in 1..g.spc {
        img.set(rb + s, &[0u8; 512]);
    }
    let small_data = rng::payload(c.seed as u32 ^ 0x5a11, SMALL_LEN);
    let sb = g.cluster_block(3);
    for (i, ch) in small_data.chunks(512).enumerate() {
        let mut b: Blk = [0u8; 512];
        b[..ch.len()].copy_from_slice(ch);
        img.set(sb + i as u32, &b);
    }
    Built { img, g, chain, small_chain: vec![3], small_data }
}

struct Model {
    size: u64,
    off: u64,
    /// file block index -> content written through the API
    overlay: BTreeMap<u64, Blk>,
    orig_size: u64,
}

impl Model {
    fn base_block(&self, b: &Built, fb: u64) -> Blk {
        let k = (fb / b.g.spc as u64) as usize;
        match b.chain.get(k) {
            Some(&c) if fb * 512 < self.orig_size => b.img.get(b.g.cluster_block(c) + (fb % b.g.spc as u64) as u32),
            _ => [0u8; 512],
        }
    }
    fn block(&self, b: &Built, fb: u64) -> Blk {
        match self.overlay.get(&fb) {
            Some(x) => *x,
            None => self.base_block(b, fb),
        }
    }
    fn read(&self, b: &Built, off: u64, len: usize) -> Vec<u8> {
        let mut out = Vec::with_capacity(len);
        let mut o = off;
        while out.len() < len {
            let blk = self.block(b, o / 512);
            let i = (o % 512) as usize;
            let n = (512 - i).min(len - out.len());
            out.extend_from_slice(&blk[i..i + n]);
            o += n as u64;
        }
        out
    }
    fn write(&mut self, b: &Built, off: u64, data: &[u8]) {
        let mut o = off;
        let mut done = 0;
        while done < data.len() {
            let fb = o / 512;
            let mut blk = self.block(b, fb);
            let i = (o % 512) as usize;
            let n = (512 - i).min(data.len() - done);
            blk[i..i + n].copy_from_slice(&data[done..done + n]);
            self.overlay.insert(fb, blk);
            o += n as u64;
            done += n;
        }
    }
}

fn mode_of(m: u8) -> Mode {
    match m {
        0 => Mode::ReadOnly,
        1 => Mode::ReadWriteAppend,
        _ => Mode::ReadWriteCreateOrAppend,
    }
}

pub fn huge_case(prop: &'static str, seed: u64) -> CaseOutcome {
    let mut c = gen_case(seed);
    if prop == "C07" {
        c.far_twin = true;
        c.ops.truncate(4);
    }
    if prop == "C05" {
        c.delete_at_end = true;
        c.ops.truncate(3);
    }
    huge_eval(prop, &c)
}

pub fn huge_replay(prop: &'static str, v: &serde_json::Value) -> Result<CaseOutcome, String> {
    let c: HugeCase = serde_json::from_value(v.clone()).map_err(|e| e.to_string())?;
    Ok(huge_eval(prop, &c))
}

pub fn huge_minimise(prop: &'static str, v: &serde_json::Value, sig: &str) -> serde_json::Value {
    let c: HugeCase = match serde_json::from_value(v.clone()) {
        Ok(c) => c,
        Err(_) => return v.clone(),
    };
    let test = |c: &HugeCase| huge_eval(prop, c).viols.iter().any(|x| x.prop == prop && x.signature() == sig);
    let mut best = c;
    let mut progress = true;
    let mut tries = 0;
    while progress && tries < 120 {
        progress = false;
        let mut i = 0;
        while i < best.ops.len() && tries < 120 {
            let mut t = best.clone();
            t.ops.remove(i);
            tries += 1;
            if test(&t) {
                best = t;
                progress = true;
            } else {
                i += 1;
            }
        }
    }
    for f in [|c: &mut HugeCase| c.segs = 1, |c: &mut HugeCase| c.lba = 0, |c: &mut HugeCase| c.num_fats = 1, |c: &mut HugeCase| c.flavour = 0] {
        let mut t = best.clone();
        f(&mut t);
        if t != best && test(&t) {
            best = t;
        }
    }
    serde_json::to_value(&best).unwrap()
}

pub fn huge_eval(prop: &'static str, case: &HugeCase) -> CaseOutcome {
    let mut out = CaseOutcome::default();
    out.case = serde_json::to_value(case).unwrap();
    out.evaluations = 1;
    out.nontrivial = true;
    let b = build(case);
    let mut probes = Probes::default();
    probes.hit("huge_cases");
    let viols: std::cell::RefCell<Vec<Violation>> = std::cell::RefCell::new(Vec::new());
    let mut h = 0xcbf29ce484222325u64;
    let clock = SimClock::new(700_000_000);
    let disk = SimDisk::new(b.img.clone());
    disk.st.borrow_mut().skip_read_log = true;
    disk.set_cap(40_000_000);
    let fl = case.flavour;
    let mut opi = 0usize;
    {
        let fs = make_fs((4, 4, 1), &disk, &clock, 1);
        // the huge-file oracles are C01's whichever batch the case runs in; the far-twin clauses are C07's
        let base_prop: &'static str = if prop == "C07" || prop == "C05" { "C01" } else { prop };
        let push = |oracle: &str, disc: &str, detail: String, opi: usize| {
            let mut viols = viols.borrow_mut();
            if viols.len() < 8 {
                viols.push(Violation { prop: if oracle.starts_with("far-twin") { "C07" } else if oracle.starts_with("huge-delete") { "C05" } else { base_prop }, oracle: oracle.into(), disc: disc.into(), detail, op_idx: opi });
            }
        };
        macro_rules! guarded {
            ($what:expr, $e:expr) => {
                match std::panic::catch_unwind(std::panic::AssertUnwindSafe(|| $e)) {
                    Ok(r) => Some(r),
                    Err(_) => {
                        push("panic", $what, format!("{} panicked at {}", $what, crate::last_panic_location()), opi);
                        None
                    }
                }
            };
        }
        let slot = 0usize;
        let vh = match guarded!("open_volume", fs.open_volume(slot, 0)) {
            Some(Ok(v)) => v,
            Some(Err(e)) => {
                push("huge-harness", "mount", err_name(&e).to_string(), 0);
                out.viols = viols.into_inner();
                return out;
            }
            None => {
                out.viols = viols.into_inner();
                return out;
            }
        };
        let root = fs.open_root_dir(vh, 0).unwrap();
        let name = Name::Str("BIG.BIN".into());
        let mut m = Model { size: case.size as u64, off: 0, overlay: BTreeMap::new(), orig_size: case.size as u64 };
        let mut mode = case.mode0;
        let mut fh = match guarded!("open_file", fs.open_file(root, &name, mode_of(mode), fl)) {
            Some(Ok(f)) => Some(f),
            Some(Err(e)) => {
                push("huge-open", err_name(&e), format!("open of the {}-byte file failed: {}", m.size, err_name(&e)), 0);
                None
            }
            None => None,
        };
        if mode != 0 {
            m.off = m.size;
        }
        // ---- two directory entries exactly 4 GiB apart: the file in one of them open, the other one's must still
        // be a different file (C07: an *open* file can neither be opened again nor deleted - no other file)
        let mut other_fh = None;
        if case.far_twin {
            probes.hit("two_directory_entries_4_gib_apart");
            match guarded!("open_file", fs.open_file(root, &Name::Str("OTHER.DAT".into()), Mode::ReadOnly, 0)) {
                Some(Ok(f)) => other_fh = Some(f),
                Some(Err(e)) => push("far-twin-harness", "open-other", err_name(&e).to_string(), 0),
                None => {}
            }
            match guarded!("open_dir", fs.open_dir(root, &Name::Str("FAR".into()), 0)) {
                Some(Ok(fd)) => {
                    match guarded!("find_directory_entry", fs.find(fd, &Name::Str("TWIN.DAT".into()), 0)) {
                        Some(Ok(de)) => {
                            if de.entry_block.0 != b.g.cluster_block(2) + (1 << 23) || de.entry_offset != 96 {
                                push("far-twin-harness", "entry-place", format!("{:?} {}", de.entry_block, de.entry_offset), 0);
                            }
                        }
                        Some(Err(e)) => push("far-twin", "lookup", err_name(&e).to_string(), 0),
                        None => {}
                    }
                    match guarded!("open_file", fs.open_file(fd, &Name::Str("TWIN.DAT".into()), Mode::ReadOnly, 0)) {
                        Some(Ok(tf)) => {
                            let _ = fs.close_file(tf, 0);
                        }
                        Some(Err(e)) => push("far-twin", "open-refused", format!("a file that is not open cannot be opened ({}): its entry lies 4 GiB behind an open file's", err_name(&e)), 0),
                        None => {}
                    }
                    if case.mode0 != 0 {
                        match guarded!("delete_file_in_dir", fs.delete(fd, &Name::Str("TWIN.DAT".into()), 0)) {
                            Some(Ok(())) => {
                                if let Some(Ok(_)) = guarded!("find_directory_entry", fs.find(fd, &Name::Str("TWIN.DAT".into()), 0)) {
                                    push("far-twin", "delete-no-effect", "deleted file still found".into(), 0);
                                }
                            }
                            Some(Err(e)) => push("far-twin", "delete-refused", format!("a file that is not open cannot be deleted ({})", err_name(&e)), 0),
                            None => {}
                        }
                    }
                    let _ = fs.close_dir(fd, 0);
                }
                Some(Err(e)) => push("far-twin", "open-dir", err_name(&e).to_string(), 0),
                None => {}
            }
        }
        let mut dead = fh.is_none();
        for (i, op) in case.ops.iter().enumerate() {
            if dead {
                break;
            }
            opi = i;
            let f = fh.unwrap();
            rng::fnv_add(&mut h, &[i as u8]);
            match op {
                HOp::SeekStart(o) => {
                    let r = guarded!("seek_from_start", fs.seek_start(f, *o, fl));
                    let legal = *o <= m.size;
                    match r {
                        Some(Ok(rep)) => {
                            if !legal {
                                push("huge-seek", "start:accepted", format!("seek to {} accepted, size {}", o, m.size), i);
                                dead = true;
                            } else {
                                m.off = *o;
                                if let Some(p) = rep {
                                    if p != m.off {
                                        push("huge-seek", "start:reported", format!("reported {} expected {}", p, m.off), i);
                                    }
                                }
                            }
                        }
                        Some(Err(e)) => {
                            if legal {
                                push("huge-seek", "start:refused", format!("seek to {} of {} refused: {}", o, m.size, err_name(&e)), i);
                            }
                        }
                        None => dead = true,
                    }
                }
                HOp::SeekCur(d) => {
                    let target = m.off as i64 + *d;
                    let fits = fl == 2 || i32::try_from(*d).is_ok();
                    let legal = fits && target >= 0 && target as u64 <= m.size;
                    match guarded!("seek_from_current", fs.seek_cur(f, *d, fl)) {
                        Some(Ok(rep)) => {
                            if !legal {
                                push("huge-seek", "current:accepted", format!("seek by {} from {} accepted, size {}", d, m.off, m.size), i);
                                dead = true;
                            } else {
                                m.off = target as u64;
                                if let Some(p) = rep {
                                    if p != m.off {
                                        push("huge-seek", "current:reported", format!("reported {} expected {}", p, m.off), i);
                                    }
                                }
                            }
                        }
                        Some(Err(e)) => {
                            if legal {
                                push("huge-seek", "current:refused", format!("seek by {} from {} (size {}) refused: {}", d, m.off, m.size, err_name(&e)), i);
                            }
                        }
                        None => dead = true,
                    }
                }
                HOp::SeekEnd(back) => {
                    let legal = *back <= m.size;
                    match guarded!("seek_from_end", fs.seek_end(f, *back, fl)) {
                        Some(Ok(rep)) => {
                            if !legal {
                                push("huge-seek", "end:accepted", format!("seek {} back from the end accepted, size {}", back, m.size), i);
                                dead = true;
                            } else {
                                m.off = m.size - *back;
                                if let Some(p) = rep {
                                    if p != m.off {
                                        push("huge-seek", "end:reported", format!("reported {} expected {}", p, m.off), i);
                                    }
                                }
                            }
                        }
                        Some(Err(e)) => {
                            if legal {
                                push("huge-seek", "end:refused", format!("seek {} back from the end of {} refused: {}", back, m.size, err_name(&e)), i);
                            }
                        }
                        None => dead = true,
                    }
                }
                HOp::Read(n) => {
                    let mut buf = vec![0xA5u8; *n as usize];
                    let want_n = ((m.size - m.off).min(*n as u64)) as usize;
                    match guarded!("read", fs.read(f, &mut buf, fl)) {
                        Some(Ok(got)) => {
                            // the embedded-io adapter may return short counts; the raw call reads all there is
                            let ok_len = if fl == 2 { got <= want_n && (got > 0 || want_n == 0) } else { got == want_n };
                            if !ok_len {
                                push("huge-read", "length", format!("read of {} at {} (size {}) returned {} bytes, expected {}", n, m.off, m.size, got, want_n), i);
                                dead = true;
                            } else {
                                let want = m.read(&b, m.off, got);
                                if buf[..got] != want[..] {
                                    let at = (0..got).find(|&k| buf[k] != want[k]).unwrap();
                                    push("huge-read", "data", format!("read of {} at offset {}: first wrong byte at +{} ({:#x} vs {:#x})", got, m.off, at, buf[at], want[at]), i);
                                }
                                if buf[got..].iter().any(|&x| x != 0xA5) {
                                    push("huge-read", "beyond-count", format!("buffer changed beyond the {} bytes reported", got), i);
                                }
                                rng::fnv_add(&mut h, &buf[..got]);
                                m.off += got as u64;
                                if m.off > (1 << 31) {
                                    probes.hit("huge_read_beyond_2g");
                                }
                            }
                        }
                        Some(Err(e)) => {
                            push("huge-read", "error", format!("read of {} at {} (size {}) failed: {}", n, m.off, m.size, err_name(&e)), i);
                            dead = true;
                        }
                        None => dead = true,
                    }
                }
                HOp::Write(n, ps) => {
                    let data = rng::payload(*ps, *n as usize);
                    let room = MAX - m.off;
                    let fits = *n as u64 <= room;
                    match guarded!("write", fs.write(f, &data, fl)) {
                        Some(Ok(())) => {
                            if mode == 0 {
                                push("huge-write", "read-only-accepted", "write through a read-only handle accepted".into(), i);
                                dead = true;
                            } else if fits {
                                m.write(&b, m.off, &data);
                                m.off += *n as u64;
                                m.size = m.size.max(m.off);
                                probes.hit("huge_writes");
                                if m.off > (1 << 31) {
                                    probes.hit("huge_write_beyond_2g");
                                }
                            } else {
                                // FAT cannot describe a file beyond 4 GiB - 1: the part that does not fit was not
                                // stored, and a call that reports success has lost data silently
                                probes.hit("huge_write_clipped_accepted");
                                push("huge-write", "clipped-write-reported-complete", format!("write of {} at offset {} can store {} bytes only, but success was reported", n, m.off, room), i);
                                dead = true;
                            }
                        }
                        Some(Err(e)) => {
                            let en = err_name(&e);
                            if mode == 0 && en == "ReadOnly" {
                            } else if !fits && mode != 0 {
                                // refusing a write that cannot fit is right; nothing or the prefix that fits may have been stored
                                probes.hit("huge_write_refused_at_limit");
                                match (fs.length(f, 0), fs.offset(f, 0)) {
                                    (Ok(l), Ok(o)) if l as u64 == m.size && o as u64 == m.off => {}
                                    (Ok(l), Ok(o)) if l as u64 == MAX && o as u64 == MAX => {
                                        m.write(&b, m.off, &data[..room as usize]);
                                        m.off = MAX;
                                        m.size = MAX;
                                    }
                                    other => {
                                        push("huge-write", "refused-at-limit-state", format!("after the refused write: {:?}; before: size {} offset {}", other.0.ok().zip(other.1.ok()), m.size, m.off), i);
                                        dead = true;
                                    }
                                }
                            } else {
                                push("huge-write", "error", format!("write of {} at {} failed: {}", n, m.off, en), i);
                                dead = true;
                            }
                        }
                        None => dead = true,
                    }
                }
                HOp::Query => {
                    let l = guarded!("file_length", fs.length(f, fl));
                    let o = guarded!("file_offset", fs.offset(f, fl));
                    let e = guarded!("file_eof", fs.eof(f, fl));
                    match (l, o, e) {
                        (Some(Ok(l)), Some(Ok(o)), Some(Ok(e))) => {
                            if l as u64 != m.size {
                                push("huge-query", "length", format!("length {} expected {}", l, m.size), i);
                            }
                            if o as u64 != m.off {
                                push("huge-query", "offset", format!("offset {} expected {}", o, m.off), i);
                            }
                            if e != (m.off == m.size) {
                                push("huge-query", "eof", format!("eof {} at offset {} of {}", e, m.off, m.size), i);
                            }
                        }
                        _ => {
                            push("huge-query", "error", "length/offset/eof failed on an open handle".into(), i);
                            dead = true;
                        }
                    }
                }
                HOp::Flush => match guarded!("flush_file", fs.flush_file(f, fl)) {
                    Some(Ok(())) => {}
                    Some(Err(e)) => {
                        push("huge-flush", "error", err_name(&e).to_string(), i);
                        dead = true;
                    }
                    None => dead = true,
                },
                HOp::Reopen(nm) => {
                    match guarded!("close_file", fs.close_file(f, fl.min(1))) {
                        Some(Ok(())) => {}
                        Some(Err(e)) => {
                            push("huge-close", "error", err_name(&e).to_string(), i);
                        }
                        None => {}
                    }
                    fh = None;
                    mode = *nm;
                    match guarded!("find_directory_entry", fs.find(root, &name, 0)) {
                        Some(Ok(de)) => {
                            if de.size as u64 != m.size {
                                push("huge-entry", "size", format!("directory entry says {} after close, expected {}", de.size, m.size), i);
                            }
                        }
                        Some(Err(e)) => push("huge-entry", "lookup", err_name(&e).to_string(), i),
                        None => {}
                    }
                    match guarded!("open_file", fs.open_file(root, &name, mode_of(mode), fl)) {
                        Some(Ok(f2)) => {
                            fh = Some(f2);
                            m.off = if mode == 0 { 0 } else { m.size };
                        }
                        Some(Err(e)) => {
                            push("huge-open", err_name(&e), format!("re-open failed: {}", err_name(&e)), i);
                            dead = true;
                        }
                        None => dead = true,
                    }
                }
            }
        }
        if let Some(f) = fh {
            if let Some(Err(e)) = guarded!("close_file", fs.close_file(f, fl.min(1))) {
                if !dead {
                    push("huge-close", "error", err_name(&e).to_string(), opi);
                }
            }
        }
        if let Some(f) = other_fh {
            let _ = guarded!("close_file", fs.close_file(f, 0));
        }
        let mut deleted = false;
        if case.delete_at_end && !dead {
            probes.hit("huge_file_deleted");
            // the chain walk rewrites a FAT block per link: not logged
            disk.st.borrow_mut().keep_log = false;
            match guarded!("delete_file_in_dir", fs.delete(root, &name, 0)) {
                Some(Ok(())) => deleted = true,
                Some(Err(e)) => {
                    push("huge-delete", "refused", format!("deleting the closed {}-byte file failed: {}", m.size, err_name(&e)), opi);
                    dead = true;
                }
                None => dead = true,
            }
        }
        // the neighbour through the API
        if let Some(Ok(sf)) = guarded!("open_file", fs.open_file(root, &Name::Str("SMALL.DAT".into()), Mode::ReadOnly, 0)) {
            let mut buf = vec![0u8; SMALL_LEN + 10];
            match guarded!("read", fs.read(sf, &mut buf, 0)) {
                Some(Ok(n)) if n == SMALL_LEN && buf[..n] == b.small_data[..] => {}
                Some(other) => push("huge-neighbour", "api", format!("the small file next to the huge one reads back differently ({:?})", other.map_err(|e| err_name(&e))), opi),
                None => {}
            }
            let _ = fs.close_file(sf, 0);
        } else {
            push("huge-neighbour", "open", "the small file cannot be opened any more".into(), opi);
        }
        let _ = guarded!("close_dir", fs.close_dir(root, 0));
        let _ = guarded!("close_volume", fs.close_volume(vh, 0));
        // ---- the medium, by the independent reader
        if !dead && viols.borrow().is_empty() {
            disk.with_image(|img| {
                match Geom::parse(img, case.lba, img.num_blocks - case.lba) {
                    Ok(g) => {
                        let fat = FatView::load(img, &g, 0);
                        let (slots, _c, _e) = fatspec::dir_slots(img, &g, &fat, fatspec::DirLoc::Cluster(g.root_cluster));
                        let ents = fatspec::live_entries(&slots, true);
                        match ents.iter().find(|e| &e.name == b"BIG     BIN") {
                            Some(_) if deleted => push("huge-delete", "entry-still-there", "BIG.BIN is still listed on the medium".into(), opi),
                            None if deleted => {
                                // everything but the root directory, the small file (and the far directory) is free again
                                let keep = 2 + case.far_twin as u32;
                                let used = (g.clusters) - fat.free_count();
                                if used != keep {
                                    push("huge-delete", "clusters-not-released", format!("{} clusters are still marked in use after the delete, {} belong to what is left", used, keep), opi);
                                }
                            }
                            Some(e) => {
                                if e.size as u64 != m.size {
                                    push("huge-medium", "size", format!("stored size {} expected {}", e.size, m.size), opi);
                                }
                                let (ch, err) = fatspec::chain(&fat, &g, e.cluster);
                                let cb = g.cluster_bytes() as u64;
                                let need = ((m.size + cb - 1) / cb) as usize;
                                if err.is_some() || ch.len() < need {
                                    push("huge-medium", "chain", format!("chain of {} clusters ({:?}) for {} bytes", ch.len(), err, m.size), opi);
                                } else if ch[..b.chain.len().min(ch.len())] != b.chain[..b.chain.len().min(ch.len())] {
                                    push("huge-medium", "chain-moved", "the formatted part of the chain changed".into(), opi);
                                } else {
                                    for (fb, blk) in &m.overlay {
                                        let k = (*fb / g.spc as u64) as usize;
                                        let got = img.get(g.cluster_block(ch[k]) + (*fb % g.spc as u64) as u32);
                                        // bytes beyond the file size inside the last block are not the file's
                                        let lim = (m.size - fb * 512).min(512) as usize;
                                        if got[..lim] != blk[..lim] {
                                            push("huge-medium", "data", format!("file block {} differs on the medium", fb), opi);
                                            break;
                                        }
                                    }
                                }
                            }
                            None => push("huge-medium", "entry-missing", "BIG.BIN is gone".into(), opi),
                        }
                        match ents.iter().find(|e| &e.name == b"SMALL   DAT") {
                            Some(e) if e.size as usize == SMALL_LEN && e.cluster == 3 => {
                                let d = fatspec::read_chain_bytes(img, &g, &b.small_chain, SMALL_LEN as u32);
                                if d != b.small_data {
                                    push("huge-neighbour", "medium", "the small file's cluster changed".into(), opi);
                                }
                            }
                            _ => push("huge-neighbour", "entry", "the small file's entry changed".into(), opi),
                        }
                    }
                    Err(e) => push("huge-medium", "geometry", e, opi),
                }
            });
            // every write went to the FAT, the FSInfo sector, the root directory or a cluster of the chain
            // (a case that ends with the delete has no chain left to compare with: not judged there)
            let st = disk.st.borrow();
            let g = &b.g;
            let fat = FatView::load(&st.image, g, 0);
            let (ch, _) = fatspec::chain(&fat, g, b.chain.first().copied().unwrap_or(0));
            let mine: std::collections::BTreeSet<u32> = ch.iter().copied().collect();
            for e in st.log.iter().filter(|e| e.write && !deleted) {
                let blk = e.block;
                let ok = if blk >= g.first_fat && blk < g.first_fat + g.num_fats * g.fat_size {
                    true
                } else if blk == g.fsinfo {
                    true
                } else {
                    match g.block_cluster(blk) {
                        Some(c) => c == 2 || mine.contains(&c) || (case.far_twin && c == 2 + (1u32 << 23) / case.spc as u32),
                        None => false,
                    }
                };
                if !ok {
                    push("huge-stray-write", "", format!("block {} written: not FAT, FSInfo, root directory or the file's chain", blk), opi);
                    break;
                }
            }
        }
    }
    rng::fnv_add(&mut h, &disk.with_image(|i| i.hash()).to_le_bytes());
    out.dev_calls = disk.calls();
    out.api_calls = case.ops.len() as u64 + 6;
    out.ev_hash = h;
    out.states = vec![h];
    out.probes = probes;
    out.viols = viols.into_inner();
    out
}
