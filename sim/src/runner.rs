//! One simulated run of the fs engine (generate-and-execute or replay), and its result.

use crate::clock::SimClock;
use crate::disk::{FaultKind, SimDisk};
use crate::fs::{make_fs, LIMITS};
use crate::gen::{profile_for, Gen, Profile};
use crate::mkfs::{build_device, gen_devspec};
use crate::ops::{Op, Scenario};
use crate::rng::Rng;
use crate::world::{Probes, Violation, World};

pub struct RunResult {
    pub scenario: Scenario,
    pub viols: Vec<Violation>,
    pub aborted: Option<String>,
    pub probes: Probes,
    pub ev_hash: u64,
    pub api_calls: u64,
    pub dev_calls: u64,
    pub mutating_ok: u64,
    pub clock_span: (u64, u64),
    pub states: Vec<u64>,
    pub multi_block: u64,
    pub faults_fired: u64,
    pub trace: Vec<String>,
}

pub fn gen_header(rng: &mut Rng, p: &Profile) -> Scenario {
    let limits = if p.small_limits {
        *rng.pick(&LIMITS[1..])
    } else if rng.chance(1, 2) {
        LIMITS[0]
    } else {
        *rng.pick(LIMITS)
    };
    let dev = gen_devspec(rng, p.bias, p.max_vols.min(3));
    let id_offset = if p.wrap_ids && rng.chance(1, 2) { u32::MAX - rng.below(12) as u32 } else if rng.chance(1, 8) { u32::MAX - rng.below(40) as u32 } else { *rng.pick(&[5000u32, 0, 1, 0x7FFF_FFFF]) };
    let clock0 = rng.range(0, crate::clock::MAX_SECS);
    Scenario { dev, limits, id_offset, clock0, ops: Vec::new(), faults: Vec::new(), dead_from: None }
}

pub enum Source<'s> {
    Generate { rng: Rng, profile: Profile },
    Replay(&'s [Op]),
}

/// Execute one scenario header with ops from `src`. Fault plan is taken from the header.
pub fn run(header: &Scenario, src: Source, keep_trace: bool, final_check: bool) -> RunResult {
    let (img, outs) = build_device(&header.dev);
    let disk = SimDisk::new(img);
    {
        let mut st = disk.st.borrow_mut();
        for f in &header.faults {
            st.faults.insert(f.at, if f.applied { FaultKind::FailApplied } else { FaultKind::Fail });
        }
        st.dead_from = header.dead_from;
    }
    let clock = SimClock::new(header.clock0);
    let fs = make_fs(header.limits, &disk, &clock, header.id_offset);
    let mut w = World::new(&disk, &clock, fs, &header.dev, &outs);
    w.keep_trace = keep_trace;
    w.faulty = !header.faults.is_empty() || header.dead_from.is_some();
    let mut ops_done: Vec<Op> = Vec::new();
    let mut api_calls = 0u64;
    match src {
        Source::Generate { rng, profile } => {
            let mut g = Gen::new(rng, profile, header.clock0);
            while ops_done.len() < g.target_len && w.aborted.is_none() {
                let op = match g.next(&w) {
                    Some(op) => op,
                    None => break,
                };
                w.op_idx = ops_done.len();
                w.step(&op);
                if op.is_api_call() {
                    api_calls += 1;
                }
                ops_done.push(op);
            }
        }
        Source::Replay(ops) => {
            for (i, op) in ops.iter().enumerate() {
                if w.aborted.is_some() {
                    break;
                }
                w.op_idx = i;
                w.step(op);
                if op.is_api_call() {
                    api_calls += 1;
                }
                ops_done.push(op.clone());
            }
        }
    }
    if final_check && w.aborted.is_none() && !w.faulty {
        w.op_idx = ops_done.len();
        w.final_close_and_check();
    } else if final_check && !w.faulty && w.aborted.as_deref().map_or(false, |a| a != "panic" && a != "fault fired") {
        w.post_mortem();
    }
    let st = disk.st.borrow();
    if st.stats.multi_block_calls > 0 {
        w.probes.hit("ASSUMPTION_VIOLATED_multi_block_device_transfer_seen");
    }
    let mut sc = header.clone();
    sc.ops = ops_done;
    RunResult {
        scenario: sc,
        viols: w.viols.clone(),
        aborted: w.aborted.clone(),
        probes: w.probes.clone(),
        ev_hash: w.ev_hash,
        api_calls,
        dev_calls: st.calls,
        mutating_ok: w.mutating_ok,
        clock_span: (clock.min_seen.get(), clock.max_seen.get()),
        states: w.state_hashes.iter().copied().collect(),
        multi_block: st.stats.multi_block_calls,
        faults_fired: st.fired.len() as u64,
        trace: w.trace.clone(),
    }
}

pub fn run_seed(prop: &str, seed: u64) -> RunResult {
    let mut rng = Rng::new(seed);
    let p = profile_for(prop);
    let header = gen_header(&mut rng, &p);
    run(&header, Source::Generate { rng, profile: p }, false, true)
}

impl<'a> World<'a> {
    /// A call gave an answer the model does not accept and the history was stopped there (the disagreement itself
    /// belongs to whichever property owns that answer). What the call did to the medium is still a structural
    /// matter: close everything through the library and run the independent fsck on the raw medium, without
    /// consulting the model. Never reached on a tree where every answer is accepted.
    pub fn post_mortem(&mut self) {
        self.probes.hit("post_mortem_fsck");
        let files: Vec<embedded_sdmmc::RawFile> = self.fslots.iter().filter_map(|s| s.cur.as_ref().map(|x| x.0)).collect();
        let dirs: Vec<embedded_sdmmc::RawDirectory> = self.dslots.iter().filter_map(|s| s.cur.as_ref().map(|x| x.0)).collect();
        let vols: Vec<embedded_sdmmc::RawVolume> = self.vslots.iter().filter_map(|s| s.cur.as_ref().map(|x| x.0)).collect();
        let r = self.call(|fs| {
            for f in files {
                let _ = fs.close_file(f, 0);
            }
            for d in dirs {
                let _ = fs.close_dir(d, 0);
            }
            for v in vols {
                let _ = fs.close_volume(v, 0);
            }
        });
        if r.is_err() {
            return;
        }
        let mut found: Vec<(String, String)> = Vec::new();
        for v in &self.vols {
            let g = v.geom.clone();
            self.disk.with_image(|img| {
                let fat = crate::fatspec::FatView::load(img, &g, 0);
                let tree = crate::fatspec::walk(img, &g, &fat, &crate::fatspec::FsckOpts::default());
                for p in &tree.problems {
                    found.push((p.kind.to_string(), p.detail.clone()));
                }
            });
        }
        for (k, d) in found {
            self.violate("C03", &format!("post-mortem-fsck/{}", k), "", format!("{} (after everything was closed following a call whose answer the model does not accept)", d));
        }
    }

    /// End of run: re-read every open file in full, close everything, then the remount oracles.
    pub fn final_close_and_check(&mut self) {
        // full re-read of open files (C01)
        let open: Vec<u8> = (0..self.fslots.len() as u8).filter(|&i| self.fslots[i as usize].cur.is_some()).collect();
        for fsl in &open {
            if self.aborted.is_some() {
                return;
            }
            self.step(&Op::SeekStart { fs: *fsl, off: 0, fl: 0 });
            let len = {
                let fh = &self.fslots[*fsl as usize].cur.as_ref().unwrap().1;
                self.file_ref(fh.vol, fh.dir, &fh.name).map_or(0, |f| match &f.data {
                    crate::world::Content::Mem(d) => d.len() as u32,
                    crate::world::Content::Lazy(n) => *n,
                })
            };
            if len <= 2_000_000 {
                self.step(&Op::Read { fs: *fsl, len: len + 3, fl: 0 });
            }
        }
        for fsl in open {
            self.step(&Op::CloseFile { fs: fsl, fl: 0 });
        }
        let dirs: Vec<u8> = (0..self.dslots.len() as u8).filter(|&i| self.dslots[i as usize].cur.is_some()).collect();
        for d in dirs {
            self.step(&Op::CloseDir { ds: d, fl: 0 });
        }
        let vols: Vec<u8> = (0..self.vslots.len() as u8).filter(|&i| self.vslots[i as usize].cur.is_some()).collect();
        for v in vols {
            self.step(&Op::CloseVolume { vs: v, fl: 0 });
        }
        if self.aborted.is_none() {
            self.checkpoint(true);
            // structure of every volume once more, with nothing open
            for v in 0..self.vols.len() {
                self.monitor_structure(v, "final");
            }
        }
    }
}
