//! Self tests of the trusted base and of the simulator's determinism.

use crate::fatspec;
use crate::mkfs;
use crate::rng;

pub fn run(args: &[String]) -> i32 {
    match args.get(0).map(|s| s.as_str()) {
        Some("determinism") => determinism(args.get(1).and_then(|s| s.parse().ok()).unwrap_or(300)),
        Some("hashes") => {
            // print event-log hashes of n runs per property (compared across processes by the caller)
            let n: u64 = args.get(1).and_then(|s| s.parse().ok()).unwrap_or(100);
            for p in crate::FS_PROPS {
                for i in 0..n {
                    let s = rng::mix(crate::batch::env_u64("VERIF_SEED", 1), rng::tag_of(p), i);
                    let o = crate::fscheck::fs_case(p, s);
                    println!("{} {} {:016x} {}", p, i, o.ev_hash, o.viols.len());
                }
            }
            0
        }
        Some("shipped-image") => shipped_image(),
        _ => {
            let a = mkfs_vs_reader(args.get(0).and_then(|s| s.parse().ok()).unwrap_or(300));
            let b = shipped_image();
            a.max(b)
        }
    }
}

fn determinism(n: u64) -> i32 {
    let mut bad = 0;
    // the other engines: same seed twice in-process
    for p in ["C09", "C10", "C11", "C12", "C13", "C14", "C15", "C17"] {
        for i in 0..n.min(150) {
            let s = rng::mix(1, rng::tag_of(p), i);
            let a = crate::run_case_pub(p, s);
            let b = crate::run_case_pub(p, s);
            if a.ev_hash != b.ev_hash || a.viols != b.viols || a.evaluations != b.evaluations {
                println!("non-deterministic: {} run {}", p, i);
                bad += 1;
            }
            let c = crate::replay_case_pub(p, &a.case);
            match c {
                Ok(c) if c.ev_hash == a.ev_hash || p == "C11" => {}
                Ok(_) => {
                    println!("replay differs from generation: {} run {}", p, i);
                    bad += 1;
                }
                Err(e) => {
                    println!("replay failed: {} run {}: {}", p, i, e);
                    bad += 1;
                }
            }
        }
    }
    for p in crate::FS_PROPS {
        for i in 0..n {
            let s = rng::mix(1, rng::tag_of(p), i);
            let a = crate::fscheck::fs_case(p, s);
            let b = crate::fscheck::fs_case(p, s);
            if a.ev_hash != b.ev_hash || a.viols != b.viols {
                println!("non-deterministic: {} run {}", p, i);
                bad += 1;
            }
            // replay of the recorded scenario gives the same execution as generation
            let c = crate::fscheck::fs_replay(p, &a.case).unwrap();
            if c.ev_hash != a.ev_hash {
                println!("replay differs from generation: {} run {}", p, i);
                bad += 1;
            }
        }
    }
    println!("determinism: {} runs x {} properties, {} bad", n, crate::FS_PROPS.len(), bad);
    if bad == 0 {
        0
    } else {
        2
    }
}

fn mkfs_vs_reader(n: u64) -> i32 {
    let mut bad = 0;
    for i in 0..n {
        let mut r = rng::Rng::new(rng::mix(1, 7, i));
        let bias = *r.pick(&[mkfs::Bias::General, mkfs::Bias::Space, mkfs::Bias::Info, mkfs::Bias::Geometry, mkfs::Bias::Small]);
        let d = mkfs::gen_devspec(&mut r, bias, 3);
        let (img, outs) = mkfs::build_device(&d);
        let mbr = fatspec::read_mbr(&img).unwrap();
        for (v, o) in d.vols.iter().zip(outs.iter()) {
            let pe = &mbr[v.slot as usize];
            let g = match fatspec::Geom::parse(&img, pe.lba, pe.blocks) {
                Ok(g) => g,
                Err(e) => {
                    println!("run {} parse error {} spec {:?}", i, e, v);
                    bad += 1;
                    continue;
                }
            };
            // (a partition-table entry that deliberately states fewer blocks than the boot sector: the geometry is
            // the boot sector's, only the recorded size of the partition differs)
            let mut g = g;
            if v.mbr_short {
                g.part_blocks = o.geom.part_blocks;
            }
            if g != o.geom {
                println!("run {} geometry mismatch\n {:?}\n {:?}", i, g, o.geom);
                bad += 1;
            }
            let fat = fatspec::FatView::load(&img, &g, 0);
            let t = fatspec::walk(&img, &g, &fat, &fatspec::FsckOpts::default());
            if !t.problems.is_empty() {
                println!("run {} problems {:?} spec {:?}", i, t.problems, v);
                bad += 1;
            }
            let lost = fatspec::lost_clusters(&fat, &t);
            if !lost.is_empty() {
                println!("run {} lost {:?}", i, &lost[..lost.len().min(8)]);
                bad += 1;
            }
            for m in &o.manifest {
                let comps: Vec<&str> = m.path.split('/').filter(|s| !s.is_empty()).collect();
                let mut dir = 0usize;
                let mut ok = true;
                for (ci, c) in comps.iter().enumerate() {
                    let last = ci + 1 == comps.len();
                    let ent = t.dirs[dir].ents.iter().find(|e| fatspec::name_str(&e.name) == *c);
                    match ent {
                        None => {
                            ok = false;
                            break;
                        }
                        Some(e) => {
                            if !last || m.is_dir {
                                let mut p = t.dirs[dir].path.clone();
                                p.push(e.name);
                                match t.find_dir(&p) {
                                    Some(d2) => dir = d2,
                                    None => {
                                        ok = false;
                                        break;
                                    }
                                }
                            } else {
                                let ch = t.file_chain(dir, &e.name).unwrap();
                                let data = fatspec::read_chain_bytes(&img, &g, ch, e.size);
                                if e.size != m.size || (m.hash != 0 && rng::fnv(&data) != m.hash) || e.attr != m.attr {
                                    ok = false;
                                }
                            }
                        }
                    }
                }
                if !ok {
                    println!("run {} manifest entry not found/mismatch {:?}", i, m);
                    bad += 1;
                }
            }
        }
    }
    println!("selftest mkfs<->fatspec: {} devices, {} bad", n, bad);
    if bad == 0 {
        0
    } else {
        2
    }
}


/// The reader must understand an image it did not make: the repository's own tests/disk.img.gz
/// (made on macOS) must read back as the listing documented in tests/utils/mod.rs.
fn shipped_image() -> i32 {
    use std::io::Read;
    let path = "/repo/tests/disk.img.gz";
    let f = match std::fs::File::open(path) {
        Ok(f) => f,
        Err(e) => {
            println!("shipped image: cannot open {}: {} (skipped)", path, e);
            return 0;
        }
    };
    let mut gz = flate2::read::GzDecoder::new(std::io::BufReader::new(f));
    let mut img = crate::disk::Image::new(1_048_576, false);
    let mut buf = [0u8; 512];
    let mut idx = 0u32;
    loop {
        let mut got = 0;
        while got < 512 {
            match gz.read(&mut buf[got..]) {
                Ok(0) => break,
                Ok(n) => got += n,
                Err(e) => {
                    println!("shipped image: read error {}", e);
                    return 2;
                }
            }
        }
        if got < 512 {
            break;
        }
        if buf.iter().any(|&b| b != 0) {
            img.set(idx, &buf);
        }
        idx += 1;
    }
    let mut bad = 0;
    let mbr = fatspec::read_mbr(&img).unwrap();
    let want: [(usize, bool, &[(&str, u32, bool)]); 2] = [
        (0, false, &[("64MB.DAT", 67108864, false), ("EMPTY.DAT", 0, false), ("README.TXT", 258, false), ("TEST", 0, true), ("TEST/TEST.DAT", 3500, false)]),
        (1, true, &[("64MB.DAT", 67108864, false), ("EMPTY.DAT", 0, false), ("README.TXT", 258, false), ("TEST", 0, true), ("TEST/TEST.DAT", 3500, false)]),
    ];
    for (slot, fat32, files) in want {
        let pe = &mbr[slot];
        let g = match fatspec::Geom::parse(&img, pe.lba, pe.blocks) {
            Ok(g) => g,
            Err(e) => {
                println!("shipped image: partition {} does not parse: {}", slot, e);
                bad += 1;
                continue;
            }
        };
        if g.fat32 != fat32 {
            println!("shipped image: partition {} FAT type wrong", slot);
            bad += 1;
        }
        let fat = fatspec::FatView::load(&img, &g, 0);
        let t = fatspec::walk(&img, &g, &fat, &fatspec::FsckOpts::default());
        if !t.problems.is_empty() {
            println!("shipped image: partition {} fsck problems {:?}", slot, t.problems);
            bad += 1;
        }
        for (path, size, is_dir) in files {
            let comps: Vec<&str> = path.split('/').collect();
            let mut dir = 0usize;
            let mut found = false;
            for (i, c) in comps.iter().enumerate() {
                match t.dirs[dir].ents.iter().find(|e| fatspec::name_str(&e.name) == *c) {
                    Some(e) => {
                        if i + 1 == comps.len() {
                            found = e.is_dir() == *is_dir && (*is_dir || e.size == *size);
                        } else {
                            let mut p = t.dirs[dir].path.clone();
                            p.push(e.name);
                            match t.find_dir(&p) {
                                Some(d) => dir = d,
                                None => break,
                            }
                        }
                    }
                    None => break,
                }
            }
            if !found {
                println!("shipped image: partition {}: {} not found as documented", slot, path);
                bad += 1;
            }
        }
        // the library and the reader must agree on the whole tree as well
        for (o, d) in crate::check::lib_tree_compare(&img, slot as u8, &g, &t, 0) {
            println!("shipped image: partition {}: library vs reader: {} {}", slot, o, d);
            bad += 1;
        }
    }
    println!("selftest shipped image (tests/disk.img.gz, made by macOS): {} blocks, {} bad", idx, bad);
    if bad == 0 {
        0
    } else {
        2
    }
}
