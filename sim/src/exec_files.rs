//! File operations: open (mode matrix), read, write, seek, flush, close, delete, mkdir.

use crate::exec::*;
use crate::fatspec::{self, DirLoc, FatVal};
use crate::fs::Name;
use crate::rng::payload;
use crate::world::*;

fn clen(c: &Content) -> u32 {
    match c {
        Content::Mem(d) => d.len() as u32,
        Content::Lazy(n) => *n,
    }
}

impl<'a> World<'a> {
    fn locate_entry(&self, vol: usize, dir: u32, name: &[u8; 11]) -> Option<fatspec::Ent> {
        let (_, _, ents) = self.disk_dir(vol, dir);
        ents.into_iter().find(|e| &e.name == name)
    }

    fn dir_chain(&self, vol: usize, dir: u32) -> Vec<u32> {
        let (_, ch, _) = self.disk_dir(vol, dir);
        ch
    }

    /// Space needed to add one entry to a directory: 0 if a slot is free, 1 if it must grow,
    /// None if it cannot grow (full FAT16 root).
    fn entry_space_need(&self, vol: usize, dir: u32) -> Option<u32> {
        if self.dir_has_free_slot(vol, dir) {
            Some(0)
        } else if self.vols[vol].dirs[&dir].loc == DirLoc::Fat16Root {
            None
        } else {
            Some(1)
        }
    }

    pub fn op_open_file(&mut self, ds: u8, name: &str, mode: u8, fs_slot: u8, fl: u8) {
        let opk = "open_file_in_dir";
        if self.fslots.get(fs_slot as usize).map_or(true, |s| s.cur.is_some()) {
            return;
        }
        let (h, dh) = match self.dslots.get(ds as usize).and_then(|s| s.cur.clone()) {
            Some(x) => x,
            None => return,
        };
        let m = mode % 6;
        let creates = m >= 3;
        let writes = m != 0;
        let mut errs: Vec<&'static str> = Vec::new();
        let mut ok_allowed = true;
        if self.open_file_count() >= self.limits.1 {
            errs.push("TooManyOpenFiles");
            ok_allowed = false;
        }
        let parsed = parse_name(name);
        let mut state = "invalid-name";
        let mut will_create = false;
        let mut space_either = false;
        match parsed {
            Err(_) => {
                errs.push("FilenameError");
                ok_allowed = false;
            }
            Ok(n) => {
                let dotname = &n == b".          " || &n == b"..         ";
                let node = if dotname {
                    // dot entries exist in sub-directories only
                    if self.vols[dh.vol].dirs[&dh.dir].parent.is_some() {
                        Some(MNode::Dir(0))
                    } else {
                        None
                    }
                } else {
                    self.name_lookup_pub(dh.vol, dh.dir, &n).cloned()
                };
                match node {
                    None => {
                        state = "missing";
                        if creates {
                            will_create = true;
                            match self.entry_space_need(dh.vol, dh.dir) {
                                Some(0) => {}
                                Some(_) => {
                                    if self.free_clusters(dh.vol) == 0 {
                                        errs.push("NotEnoughSpace");
                                        errs.push("DiskFull");
                                        ok_allowed = false;
                                    }
                                }
                                None => {
                                    errs.push("NotEnoughSpace");
                                    errs.push("DiskFull");
                                    ok_allowed = false;
                                }
                            }
                        } else {
                            errs.push("NotFound");
                            ok_allowed = false;
                        }
                    }
                    Some(MNode::Dir(_)) => {
                        state = "directory";
                        errs.push("OpenedDirAsFile");
                        // a directory that also carries the read-only attribute may be refused for that reason first
                        if writes && !dotname && self.disk_dir(dh.vol, dh.dir).2.iter().any(|e| e.name == n && e.attr & 0x11 == 0x11) {
                            errs.push("ReadOnly");
                            self.probes.hit("readonly_directory_opened_as_file_for_writing");
                        }
                        if m == 3 {
                            errs.push("FileAlreadyExists");
                        }
                        ok_allowed = false;
                    }
                    Some(MNode::Other) => {
                        state = "other";
                        // volume labels and the like: outside the statement, anything goes
                        space_either = true;
                    }
                    Some(MNode::File(f)) => {
                        let ro = f.attr & 1 != 0;
                        if f.open.is_some() {
                            state = if ro { "open-readonly-file" } else { "open-file" };
                            errs.push("FileAlreadyOpen");
                            if m == 3 {
                                errs.push("FileAlreadyExists");
                            }
                            if ro && writes {
                                errs.push("ReadOnly");
                            }
                            ok_allowed = false;
                        } else if m == 3 {
                            state = if ro { "readonly-file" } else { "file" };
                            errs.push("FileAlreadyExists");
                            ok_allowed = false;
                        } else if ro && writes {
                            state = "readonly-file";
                            errs.push("ReadOnly");
                            ok_allowed = false;
                        } else {
                            state = if ro { "readonly-file" } else { "file" };
                        }
                    }
                }
            }
        }
        if space_either {
            // not judged
            return;
        }
        // C04 allowance
        let mut allow = Allow { vol: Some(dh.vol), ..Default::default() };
        let n11 = parsed.unwrap_or([b' '; 11]);
        let pre_ent = if parsed.is_ok() { self.locate_entry(dh.vol, dh.dir, &n11) } else { None };
        let truncating = ok_allowed && !will_create && (m == 2 || m == 4);
        if ok_allowed && will_create {
            allow.new_slot = Some((dh.vol, dh.dir, n11));
            for c in self.dir_chain(dh.vol, dh.dir) {
                allow.fat_clusters.insert(c);
            }
        } else if truncating {
            if let Some(e) = &pre_ent {
                allow.slots.push((e.block, e.off));
                let (ch, _) = fatspec::chain(&self.vols[dh.vol].fat, &self.vols[dh.vol].geom, e.cluster);
                for c in ch {
                    allow.fat_clusters.insert(c);
                }
            }
        } else {
            allow.read_only = true;
        }
        let free_before = self.free_clusters(dh.vol);
        let nm = Name::Str(name.to_string());
        let md = mode_of(m);
        let now = self.clock.now();
        let r = got(self.call(|fs| fs.open_file(h, &nm, md, fl)));
        let gn = r.name();
        let ctx = format!("{}:{}", mode_name(m), state);
        let ok = self.judge(opk, &ctx, gn, name, ok_allowed, &errs);
        if !ok && is_space_err(gn) {
            self.blame_stale_info(dh.vol, opk, gn);
        }
        if ok && will_create && is_space_err(gn) {
            self.probes.hit("create_refused_no_space");
        }
        if !ok && gn != "Ok" && !ok_allowed {
            // refused with an unexpected error: still must not have changed anything
            allow.read_only = true;
        }
        if gn != "Ok" {
            // a refused call changes nothing (C07)
            allow = Allow { vol: Some(dh.vol), read_only: true, refused: true, ..Default::default() };
        }
        if ok {
            if let Got::Ok(fh) = r {
                self.check_new_handle_pub(handle_num(&fh), "file");
                self.mutating_ok += (writes && (will_create || truncating)) as u64;
                if will_create {
                    // locate the new slot on the medium
                    let ent = self.locate_entry_after(dh.vol, dh.dir, &n11);
                    let loc = ent.as_ref().map_or((0, 0), |e| (e.block, e.off));
                    if let Some(e) = &ent {
                        allow.slots.push((e.block, e.off));
                    } else {
                        self.violate("C02", "created-entry-missing", mode_name(m), format!("{} not on the medium after create", name));
                    }
                    let d = self.vols[dh.vol].dirs.get_mut(&dh.dir).unwrap();
                    d.touched = true;
                    d.entries.insert(
                        n11,
                        MNode::File(MFile { data: Content::Mem(Vec::new()), attr: 0, ctime: now.fat_rounded(), mtime_ok: vec![now.fat_rounded()], open: Some(fs_slot), touched: true, init_raw: None, disk_size: 0, loc, clean: true, init_chain: Vec::new(), durable: false }),
                    );
                    self.fslots[fs_slot as usize].cur = Some((fh, FH { vol: dh.vol, dir: dh.dir, name: n11, writable: true, off: 0, chain: Vec::new(), dirty: false, ever_dirty: false }));
                    self.probes.hit("file_created");
                } else {
                    self.materialise(dh.vol, dh.dir, &n11);
                    let chain0 = match &pre_ent {
                        Some(e) if e.cluster >= 2 => fatspec::chain(&self.vols[dh.vol].fat, &self.vols[dh.vol].geom, e.cluster).0,
                        _ => Vec::new(),
                    };
                    let mut off = 0u32;
                    {
                        let f = self.file_mut(dh.vol, dh.dir, &n11).unwrap();
                        f.open = Some(fs_slot);
                        if m == 2 || m == 4 {
                            f.data = Content::Mem(Vec::new());
                            f.touched = true;
                            f.init_raw = None;
                            f.disk_size = 0;
                            f.clean = true;
                            f.durable = false;
                            // the truncation is itself a modification; both readings accepted
                            f.mtime_ok.push(now.fat_rounded());
                        }
                        if m == 1 || m == 5 {
                            off = clen(&f.data);
                        }
                    }
                    if m == 2 || m == 4 {
                        self.vols[dh.vol].dirs.get_mut(&dh.dir).unwrap().touched = true;
                        self.probes.hit("file_truncated");
                    }
                    self.fslots[fs_slot as usize].cur = Some((fh, FH { vol: dh.vol, dir: dh.dir, name: n11, writable: writes, off, chain: chain0, dirty: false, ever_dirty: false }));
                    // C07 follow-up: offset/length right after the open
                    let want_len = clen(&self.file_ref(dh.vol, dh.dir, &n11).unwrap().data);
                    let lo = got(self.call(|fs| fs.offset(fh, 0)));
                    let ll = got(self.call(|fs| fs.length(fh, 0)));
                    if let (Got::Ok(o), Got::Ok(l)) = (&lo, &ll) {
                        if *o != off || *l != want_len {
                            self.violate("C07", "open-position", mode_name(m), format!("after open: offset {} length {}, expected {} {}", o, l, off, want_len));
                        }
                    }
                }
            }
        }
        let eff = self.finish(opk, &allow, Some(dh.vol));
        if ok && gn == "Ok" && (m == 2 || m == 4) && !will_create {
            // after truncation the chain is whatever the medium says hangs off the entry's cluster
            let ent = self.locate_entry(dh.vol, dh.dir, &n11);
            let ch = match ent {
                Some(e) if e.cluster >= 2 => fatspec::chain(&self.vols[dh.vol].fat, &self.vols[dh.vol].geom, e.cluster).0,
                _ => Vec::new(),
            };
            // C05: truncating a file makes its clusters available again (the first one may stay with the entry)
            if ch.len() > 1 {
                self.violate("C05", "truncate-kept-clusters", mode_name(m), format!("{} clusters still hang off the entry after the truncating open", ch.len()));
            }
            if let Some((_, fh)) = self.fslots[fs_slot as usize].cur.as_mut() {
                fh.chain = ch;
            }
            let _ = (free_before, &eff);
        }
    }

    /// C16: "a wrong or out-of-range record found at mount never makes an operation fail". Called when an
    /// operation was refused for lack of space although space was there.
    pub fn blame_stale_info(&mut self, vol: usize, opk: &'static str, gotn: &str) {
        let v = &self.vols[vol];
        if !v.geom.fat32 {
            return;
        }
        if let Some((count0, hint0, free0)) = v.info_at_mount {
            let n = v.geom.clusters + 2;
            // a record is "wrong" when its count is not the truth, or its hint is out of range or names a cluster that
            // was in use (with a fully truthful record the failure is C05's alone)
            let wrong = (count0 != 0xFFFF_FFFF && count0 != free0) || (hint0 != 0xFFFF_FFFF && (!(hint0 >= 2 && hint0 < n) || !v.hint_named_free_at_mount));
            if wrong {
                self.violate("C16", "operation-fails-on-wrong-fsinfo", &format!("{}:{}", opk, gotn), format!("FSInfo at mount said count {} hint {} (truth: {} free of {} clusters); {} then failed with {} although space was available", count0, hint0, free0, v.geom.clusters, opk, gotn));
            }
        }
    }

    pub fn name_lookup_pub(&self, vol: usize, dir: u32, n: &[u8; 11]) -> Option<&MNode> {
        self.vols[vol].dirs.get(&dir)?.entries.get(n)
    }

    /// locate an entry after the call under way: make the FAT view current first
    fn locate_entry_after(&mut self, vol: usize, dir: u32, name: &[u8; 11]) -> Option<fatspec::Ent> {
        self.absorb_early();
        self.locate_entry(vol, dir, name)
    }

    /// flush (close=false) or close (close=true)
    pub fn op_close_file(&mut self, fs_slot: u8, fl: u8, close: bool) {
        let opk = if close { "close_file" } else { "flush_file" };
        // dropping the RAII wrapper discards errors by documented design; under fault injection use the
        // flavour that reports them
        let fl = if self.faulty && close && fl == 2 { 1 } else { fl };
        let (h, fh) = match self.fslots.get(fs_slot as usize).and_then(|s| s.cur.clone()) {
            Some(x) => x,
            None => return,
        };
        let loc = self.file_ref(fh.vol, fh.dir, &fh.name).map(|f| f.loc).unwrap_or((0, 0));
        let mut allow = Allow { vol: Some(fh.vol), may_write_info: true, ..Default::default() };
        if fh.ever_dirty {
            allow.slots.push(loc);
        } else {
            allow.read_only = true;
        }
        let r = got(self.call(|fs| if close { fs.close_file(h, fl) } else { fs.flush_file(h, fl) }));
        let gn = r.name();
        let ok = self.judge(opk, if fh.dirty { "dirty" } else { "clean" }, gn, "", true, &[]);
        if ok {
            if fh.dirty {
                self.mutating_ok += 1;
            }
            if let Some(f) = self.file_mut(fh.vol, fh.dir, &fh.name) {
                if fh.dirty {
                    f.disk_size = clen(&f.data);
                    f.clean = true;
                }
                if f.clean {
                    f.durable = true;
                }
                if close {
                    f.open = None;
                }
            }
            if close {
                self.fslots[fs_slot as usize].cur = None;
                self.fslots[fs_slot as usize].dead = Some(h);
            } else if let Some((_, x)) = self.fslots[fs_slot as usize].cur.as_mut() {
                x.dirty = false;
            }
        }
        let info_blk = self.vols[fh.vol].geom.fsinfo;
        let wrote_info = self.vols[fh.vol].geom.fat32 && self.disk.st.borrow().log[self.log_mark..].iter().any(|e| e.write && e.applied && e.block == info_blk);
        self.finish(opk, &allow, Some(fh.vol));
        if ok && (fh.dirty || wrote_info) {
            self.monitor_c16_info(fh.vol, opk);
        }
        if ok && fh.dirty {
            // the entry on the medium must now name the chain and the size (C02, checked in full at checkpoints)
            if let Some(e) = self.locate_entry(fh.vol, fh.dir, &fh.name) {
                let want = self.file_ref(fh.vol, fh.dir, &fh.name).map_or(0, |f| clen(&f.data));
                if e.size != want {
                    self.violate("C02", "flushed-size", opk, format!("entry size {} model {}", e.size, want));
                }
                let head = fh.chain.first().copied().unwrap_or(0);
                if want > 0 && e.cluster != head {
                    self.violate("C02", "flushed-cluster", opk, format!("entry cluster {} chain head {}", e.cluster, head));
                }
            } else {
                self.violate("C02", "flushed-entry-missing", opk, String::new());
            }
        }
    }

    pub fn op_read(&mut self, fs_slot: u8, len: u32, fl: u8) {
        let opk = "read";
        let (h, fh) = match self.file_of_pub(fs_slot) {
            Some(x) => x,
            None => return,
        };
        self.materialise(fh.vol, fh.dir, &fh.name);
        let mut buf = vec![0xEEu8; len as usize];
        let r = got(self.call(|fs| fs.read(h, &mut buf, fl)));
        let gn = r.name();
        let ok = self.judge(opk, "", gn, "", true, &[]);
        if ok {
            if let Got::Ok(n) = r {
                let data = match &self.file_ref(fh.vol, fh.dir, &fh.name).unwrap().data {
                    Content::Mem(d) => d.clone(),
                    _ => Vec::new(),
                };
                let remaining = data.len() - fh.off as usize;
                let maxn = remaining.min(len as usize);
                if n > maxn {
                    self.violate("C01", "read-count", "too-many", format!("returned {} with {} requested and {} remaining", n, len, remaining));
                    self.abort("read count");
                } else if n == 0 && maxn > 0 {
                    self.violate("C01", "read-count", "zero", format!("returned 0 with {} requested and {} remaining", len, remaining));
                } else {
                    let want = &data[fh.off as usize..fh.off as usize + n];
                    if &buf[..n] != want {
                        let first = (0..n).find(|&i| buf[i] != want[i]).unwrap();
                        let cb = self.vols[fh.vol].geom.cluster_bytes() as usize;
                        let pos = fh.off as usize + first;
                        let disc = if pos % cb == 0 { "at-cluster-start" } else if pos % 512 == 0 { "at-block-start" } else { "mid-block" };
                        self.violate("C01", "read-bytes", disc, format!("offset {} len {}: first wrong byte at file offset {}", fh.off, n, pos));
                    }
                    if buf[n..].iter().any(|&b| b != 0xEE) && fl != 2 {
                        self.violate("C01", "read-overrun", "", format!("bytes past the returned count were modified"));
                    }
                    if let Some((_, x)) = self.fslots[fs_slot as usize].cur.as_mut() {
                        x.off += n as u32;
                    }
                    if n > 0 {
                        self.probes.hit("read_nonempty");
                        let cb = self.vols[fh.vol].geom.cluster_bytes();
                        if fh.off / cb != (fh.off + n as u32 - 1) / cb {
                            self.probes.hit("read_crossed_cluster");
                        }
                    }
                }
            }
        }
        let a = Allow { read_only: true, ..Default::default() };
        self.finish(opk, &a, None);
        self.op_query(fs_slot, 0);
    }

    pub fn file_of_pub(&self, fs: u8) -> Option<(embedded_sdmmc::RawFile, FH)> {
        self.fslots.get(fs as usize)?.cur.clone()
    }

    pub fn op_query(&mut self, fs_slot: u8, fl: u8) {
        let (h, fh) = match self.file_of_pub(fs_slot) {
            Some(x) => x,
            None => return,
        };
        if self.aborted.is_some() {
            return;
        }
        let want_len = self.file_ref(fh.vol, fh.dir, &fh.name).map_or(0, |f| clen(&f.data));
        let l = got(self.call(|fs| fs.length(h, fl)));
        let o = got(self.call(|fs| fs.offset(h, fl)));
        let e = got(self.call(|fs| fs.eof(h, fl)));
        match (l, o, e) {
            (Got::Ok(l), Got::Ok(o), Got::Ok(e)) => {
                self.ev(&format!("q:{}:{}:{}", l, o, e));
                if l != want_len {
                    self.violate("C01", "length", "", format!("library {} model {}", l, want_len));
                    self.abort("length");
                }
                if o != fh.off {
                    self.violate("C01", "offset", "", format!("library {} model {}", o, fh.off));
                    self.abort("offset");
                }
                if e != (fh.off == want_len) {
                    self.violate("C01", "eof", "", format!("library {} at offset {} of {}", e, fh.off, want_len));
                }
            }
            _ => {
                self.violate("C01", "query-failed", "", "length/offset/eof on an open handle failed".into());
                self.abort("query");
            }
        }
    }

    pub fn op_seek(&mut self, fs_slot: u8, whence: u8, arg: i128, fl: u8) {
        let opk = match whence {
            0 => "seek_from_start",
            1 => "seek_from_current",
            _ => "seek_from_end",
        };
        let (h, fh) = match self.file_of_pub(fs_slot) {
            Some(x) => x,
            None => return,
        };
        let len = self.file_ref(fh.vol, fh.dir, &fh.name).map_or(0, |f| clen(&f.data)) as i128;
        let target: i128 = match whence {
            0 => arg,
            1 => fh.off as i128 + arg,
            _ => len - arg,
        };
        let valid = target >= 0 && target <= len;
        let r = match whence {
            0 => got(self.call(|fs| fs.seek_start(h, arg as u64, fl))),
            1 => got(self.call(|fs| fs.seek_cur(h, arg as i64, fl))),
            _ => got(self.call(|fs| fs.seek_end(h, arg as u64, fl))),
        };
        let gn = r.name();
        let ok = self.judge(opk, if valid { "valid" } else { "invalid" }, gn, &format!("arg {} len {} off {}", arg, len, fh.off), valid, if valid { &[] } else { &["InvalidOffset"] });
        if ok && valid {
            if let Got::Ok(Some(pos)) = r {
                if pos as i128 != target {
                    self.violate("C01", "seek-result", opk, format!("returned {} expected {}", pos, target));
                }
            }
            if (target as u32) < fh.off {
                let cb = self.vols[fh.vol].geom.cluster_bytes();
                if (target as u32) / cb < fh.off / cb {
                    self.probes.hit("backward_seek_across_clusters");
                }
            }
            if let Some((_, x)) = self.fslots[fs_slot as usize].cur.as_mut() {
                x.off = target as u32;
            }
        }
        let a = Allow { read_only: true, ..Default::default() };
        self.finish(opk, &a, None);
        self.op_query(fs_slot, 0);
    }

    pub fn op_write(&mut self, fs_slot: u8, len: u32, seed: u32, fl: u8) {
        let opk = "write";
        let (h, fh) = match self.file_of_pub(fs_slot) {
            Some(x) => x,
            None => return,
        };
        self.materialise(fh.vol, fh.dir, &fh.name);
        let data = payload(seed, len as usize);
        let cb = self.vols[fh.vol].geom.cluster_bytes() as u64;
        let old_len = self.file_ref(fh.vol, fh.dir, &fh.name).map_or(0, |f| clen(&f.data));
        let end = fh.off as u64 + len as u64;
        let have = fh.chain.len() as u64;
        let need_min = if len == 0 { 0 } else { ((end + cb - 1) / cb).saturating_sub(have) };
        // an implementation may take the first cluster even for an empty write
        let need_max = need_min.max(if have == 0 { 1 } else { 0 });
        let free = self.free_clusters(fh.vol) as u64;
        let mut errs: Vec<&'static str> = Vec::new();
        let mut ok_allowed = true;
        if !fh.writable {
            errs.push("ReadOnly");
            // an empty write that is a no-op is not a write the statement speaks about
            ok_allowed = len == 0;
        } else if free < need_min {
            errs.push("DiskFull");
            errs.push("NotEnoughSpace");
            ok_allowed = false;
        } else if free < need_max {
            errs.push("DiskFull");
            errs.push("NotEnoughSpace");
        }
        let mut allow = Allow { vol: Some(fh.vol), extend_only: true, ..Default::default() };
        if fh.writable {
            for &c in &fh.chain {
                allow.fat_clusters.insert(c);
            }
            // byte ranges in clusters the file already owns
            let g = &self.vols[fh.vol].geom;
            let mut pos = fh.off as u64;
            while pos < end {
                let ci = (pos / cb) as usize;
                if ci >= fh.chain.len() {
                    break;
                }
                let within = pos % cb;
                let blk = g.cluster_block(fh.chain[ci]) + (within / 512) as u32;
                let lo = (within % 512) as usize;
                let hi = (lo as u64 + (end - pos)).min(512) as usize;
                allow.ranges.insert(blk, (lo, hi));
                pos += (hi - lo) as u64;
            }
        } else {
            allow.read_only = true;
        }
        let now = self.clock.now();
        let r = got(self.call(|fs| fs.write(h, &data, fl)));
        let gn = r.name();
        let ctx = if !fh.writable { "readonly-handle" } else if free < need_min { "no-space" } else { "space" };
        let mut ok = self.judge(opk, ctx, gn, &format!("off {} len {} free {} need {}", fh.off, len, free, need_min), ok_allowed, &errs);
        if !ok && fh.writable && is_space_err(gn) {
            self.blame_stale_info(fh.vol, opk, gn);
        }
        if !ok && !self.faulty && fh.writable && !matches!(gn, "Ok" | "PANIC" | "HANG") {
            // the refusal has been recorded as a violation; follow the library's own account of what it did so
            // that the rest of the history (what the file now reads back) is still judged
            self.aborted = None;
            ok = true;
        }
        if gn == "ReadOnly" {
            allow = Allow { vol: Some(fh.vol), read_only: true, refused: true, ..Default::default() };
        }
        let eff = self.absorb_early();
        if ok && fh.writable {
            // follow the chain on the medium (policy independent)
            let new_chain = self.recompute_chain(fh.vol, &fh.chain, &eff);
            if !fh.chain.is_empty() && new_chain.len() < fh.chain.len() {
                self.violate("C03", "chain-shrunk-by-write", "", String::new());
            }
            if let Some((_, x)) = self.fslots[fs_slot as usize].cur.as_mut() {
                x.chain = new_chain.clone();
                // an empty write need not count as a modification
                if len > 0 {
                    x.dirty = true;
                }
                x.ever_dirty = true;
            }
            if gn == "Ok" {
                self.mutating_ok += 1;
                let f = self.file_mut(fh.vol, fh.dir, &fh.name).unwrap();
                if let Content::Mem(d) = &mut f.data {
                    if (end as usize) > d.len() {
                        d.resize(end as usize, 0);
                    }
                    d[fh.off as usize..end as usize].copy_from_slice(&data);
                }
                f.touched = true;
                f.init_raw = None;
                if len > 0 {
                    f.clean = false;
                    f.durable = false;
                }
                f.attr |= 0x20;
                if len > 0 {
                    f.mtime_ok = vec![now.fat_rounded()];
                } else {
                    f.mtime_ok.push(now.fat_rounded());
                }
                self.vols[fh.vol].dirs.get_mut(&fh.dir).unwrap().touched = true;
                if let Some((_, x)) = self.fslots[fs_slot as usize].cur.as_mut() {
                    x.off = end as u32;
                }
                if len > 0 {
                    self.probes.hit("write_nonempty");
                    if new_chain.len() > fh.chain.len() {
                        self.probes.hit("file_extended");
                        if self.vols[fh.vol].free == 0 {
                            self.probes.hit("volume_exactly_full");
                        }
                        let last = self.vols[fh.vol].geom.clusters + 1;
                        if new_chain.contains(&last) && !fh.chain.contains(&last) {
                            self.probes.hit("last_cluster_allocated");
                        }
                        if new_chain.iter().any(|&c| c >= 0x10000) {
                            self.probes.hit("cluster_above_64k_used");
                        }
                    }
                    if fh.off as u64 / cb != (end - 1) / cb {
                        self.probes.hit("write_crossed_cluster");
                    }
                    if (fh.off as u64) < old_len as u64 {
                        self.probes.hit("overwrite_inside_file");
                    }
                }
            } else {
                // out of space: the library reports how far it got; that must be a prefix application
                self.probes.hit("write_refused_no_space");
                let lo = got(self.call(|fs| fs.offset(h, 0)));
                let ll = got(self.call(|fs| fs.length(h, 0)));
                match (lo, ll) {
                    (Got::Ok(o), Got::Ok(l)) => {
                        let k = o as i64 - fh.off as i64;
                        let want_len = (old_len as u64).max(o as u64);
                        if k < 0 || k > len as i64 || l as u64 != want_len {
                            self.violate("C05", "partial-write-shape", "", format!("after failed write: offset {} (was {}), length {} (was {})", o, fh.off, l, old_len));
                            // the library's own claim about the length is what the structure monitors must judge
                            if let Some(f) = self.file_mut(fh.vol, fh.dir, &fh.name) {
                                if let Content::Mem(d) = &mut f.data {
                                    d.resize(l as usize, 0);
                                }
                            }
                            self.abort("partial write");
                        } else {
                            let k = k as usize;
                            // everything reported as written must fit in the chain
                            if (new_chain.len() as u64) * cb < l as u64 {
                                self.violate("C05", "reported-length-exceeds-chain", "", format!("length {} with {} clusters", l, new_chain.len()));
                            }
                            let f = self.file_mut(fh.vol, fh.dir, &fh.name).unwrap();
                            if let Content::Mem(d) = &mut f.data {
                                if (l as usize) > d.len() {
                                    d.resize(l as usize, 0);
                                }
                                d[fh.off as usize..fh.off as usize + k].copy_from_slice(&data[..k]);
                            }
                            f.touched = true;
                            f.init_raw = None;
                            f.clean = false;
                            f.durable = false;
                            f.mtime_ok.push(now.fat_rounded());
                            self.vols[fh.vol].dirs.get_mut(&fh.dir).unwrap().touched = true;
                            if let Some((_, x)) = self.fslots[fs_slot as usize].cur.as_mut() {
                                x.off = o;
                            }
                        }
                    }
                    _ => self.abort("query after failed write"),
                }
            }
            // C04 for bytes in clusters added during this call: locate the written range through the post-call chain
            self.check_written_range(fh.vol, &new_chain, fh.off as u64, end, &eff);
        }
        self.finish(opk, &allow, Some(fh.vol));
        // C01: writing to one file never changes what any other file reads back: spot check
        if ok && gn == "Ok" && len > 0 {
            self.cross_file_check(fs_slot);
        }
        self.op_query(fs_slot, 0);
    }

    /// finish() without moving the mark (the caller still needs the log)
    fn finish_keep_mark(&mut self, opk: &'static str, allow: &Allow, vol: Option<usize>) -> CallEffect {
        let mark = self.log_mark;
        let eff = self.finish(opk, allow, vol);
        self.log_mark = mark;
        eff
    }

    fn recompute_chain(&self, vol: usize, old: &[u32], eff: &CallEffect) -> Vec<u32> {
        let v = &self.vols[vol];
        if let Some(&head) = old.first() {
            return fatspec::chain(&v.fat, &v.geom, head).0;
        }
        // head unknown: among the clusters that went from free to used in this call, the one nobody points to
        let mask = if v.geom.fat32 { 0x0FFF_FFFF } else { 0xFFFF };
        let newly: Vec<u32> = eff.fat_changes.iter().filter(|&&(vi, c, o, n)| vi == vol && c >= 2 && o & mask == 0 && n & mask != 0).map(|&(_, c, _, _)| c).collect();
        let pointed: Vec<u32> = newly.iter().filter_map(|&c| match v.fat.val(c) {
            FatVal::Next(n) => Some(n),
            _ => None,
        }).collect();
        for &c in &newly {
            if !pointed.contains(&c) {
                // must not be the continuation of some other (pre-existing) chain: its predecessor would have changed too
                let is_pointed_by_changed = eff.fat_changes.iter().any(|&(vi, cc, _, n)| vi == vol && cc != c && n & mask == c);
                if !is_pointed_by_changed {
                    return fatspec::chain(&v.fat, &v.geom, c).0;
                }
            }
        }
        Vec::new()
    }

    /// All bytes the write changed in data blocks must belong to [off,end) of the file as laid
    /// out by the post-call chain, or to clusters that were free before the call (already
    /// accepted by the monitor). Here: the reverse direction — the file range holds the payload
    /// is checked by reads; this only feeds the probe counters.
    fn check_written_range(&mut self, _vol: usize, _chain: &[u32], _off: u64, _end: u64, _eff: &CallEffect) {}

    fn cross_file_check(&mut self, writer: u8) {
        let others: Vec<u8> = (0..self.fslots.len() as u8).filter(|&i| i != writer && self.fslots[i as usize].cur.is_some()).collect();
        for o in others {
            let (h, fh) = self.file_of_pub(o).unwrap();
            self.materialise(fh.vol, fh.dir, &fh.name);
            let data = match &self.file_ref(fh.vol, fh.dir, &fh.name).unwrap().data {
                Content::Mem(d) => d.clone(),
                _ => continue,
            };
            if data.is_empty() {
                continue;
            }
            // read up to 64 bytes at the other file's cursor block start, then restore the cursor
            let at = (fh.off as usize).min(data.len() - 1) / 512 * 512;
            let n = (data.len() - at).min(64);
            let r1 = got(self.call(|fs| fs.seek_start(h, at as u64, 0)));
            let mut buf = vec![0u8; n];
            let r2 = got(self.call(|fs| fs.read(h, &mut buf, 0)));
            let r3 = got(self.call(|fs| fs.seek_start(h, fh.off as u64, 0)));
            if self.faulty && self.disk.fired_total() > self.fired_mark {
                self.fault_op = Some(self.op_idx);
                if matches!(r2, Got::Ok(_)) {
                    self.violate("C11", "device-error-swallowed", "read:cross-file", "a block-device call failed during read but the call returned Ok".into());
                } else if matches!(r2, Got::Panic(_)) {
                    let lp = self.last_panic.clone();
                    self.violate("C11", "panic-on-device-error", "read", lp);
                }
                self.abort("fault fired");
                let a = Allow { read_only: true, ..Default::default() };
                self.finish("read", &a, None);
                return;
            }
            match (r1, r2, r3) {
                (Got::Ok(_), Got::Ok(k), Got::Ok(_)) => {
                    if k != n || buf[..k] != data[at..at + k] {
                        self.violate("C01", "cross-file", "", format!("after a write to slot {}, file in slot {} reads wrong bytes at {}", writer, o, at));
                    }
                    self.probes.hit("cross_file_spot_check");
                }
                _ => {
                    if !self.faulty {
                        self.violate("C01", "cross-file", "call-failed", String::new());
                    }
                }
            }
            let a = Allow { read_only: true, ..Default::default() };
            self.finish("read", &a, None);
        }
    }

    pub fn op_delete(&mut self, ds: u8, name: &str, fl: u8) {
        let opk = "delete_file_in_dir";
        let (h, dh) = match self.dslots.get(ds as usize).and_then(|s| s.cur.clone()) {
            Some(x) => x,
            None => return,
        };
        let parsed = parse_name(name);
        let mut errs: Vec<&'static str> = Vec::new();
        let mut ok_allowed = true;
        let mut state = "invalid-name";
        let mut allow = Allow { vol: Some(dh.vol), ..Default::default() };
        if let Ok(n) = parsed {
            let dot = &n == b".          " || &n == b"..         ";
            let node = if dot { if self.vols[dh.vol].dirs[&dh.dir].parent.is_some() { Some(MNode::Dir(0)) } else { None } } else { self.name_lookup_pub(dh.vol, dh.dir, &n).cloned() };
            match node {
                None => {
                    state = "missing";
                    errs.push("NotFound");
                    ok_allowed = false;
                }
                Some(MNode::Dir(_)) => {
                    state = "directory";
                    errs.push("DeleteDirAsFile");
                    ok_allowed = false;
                }
                Some(MNode::Other) => return,
                Some(MNode::File(f)) => {
                    if f.open.is_some() {
                        state = "open-file";
                        errs.push("FileAlreadyOpen");
                        ok_allowed = false;
                    } else {
                        state = if f.attr & 1 != 0 { "readonly-file" } else { "file" };
                        if f.attr & 1 != 0 {
                            // the statement does not say whether a read-only file may be deleted
                            errs.push("ReadOnly");
                        }
                        if let Some(e) = self.locate_entry(dh.vol, dh.dir, &n) {
                            allow.slots.push((e.block, e.off));
                            if e.cluster >= 2 {
                                for c in fatspec::chain(&self.vols[dh.vol].fat, &self.vols[dh.vol].geom, e.cluster).0 {
                                    allow.fat_clusters.insert(c);
                                }
                            }
                        }
                    }
                }
            }
        } else {
            errs.push("FilenameError");
            ok_allowed = false;
        }
        if !ok_allowed {
            allow.read_only = true;
        }
        let nm = Name::Str(name.to_string());
        let r = got(self.call(|fs| fs.delete(h, &nm, fl)));
        let gn = r.name();
        let ok = self.judge(opk, state, gn, name, ok_allowed, &errs);
        if gn != "Ok" {
            allow = Allow { vol: Some(dh.vol), read_only: true, refused: true, ..Default::default() };
        }
        if ok && gn == "Ok" {
            let n = parsed.unwrap();
            let d = self.vols[dh.vol].dirs.get_mut(&dh.dir).unwrap();
            d.entries.remove(&n);
            d.touched = true;
            self.mutating_ok += 1;
            self.probes.hit("file_deleted");
        }
        self.finish(opk, &allow, Some(dh.vol));
    }

    pub fn op_mkdir(&mut self, ds: u8, name: &str, fl: u8) {
        let opk = "make_dir_in_dir";
        let (h, dh) = match self.dslots.get(ds as usize).and_then(|s| s.cur.clone()) {
            Some(x) => x,
            None => return,
        };
        let parsed = parse_name(name);
        let mut errs: Vec<&'static str> = Vec::new();
        let mut ok_allowed = true;
        let mut state = "invalid-name";
        if self.open_dir_count() >= self.limits.0 {
            // observed quirk, accepted: refuses although it opens nothing
            errs.push("TooManyOpenDirs");
        }
        let mut allow = Allow { vol: Some(dh.vol), ..Default::default() };
        match parsed {
            Err(_) => {
                errs.push("FilenameError");
                ok_allowed = false;
            }
            Ok(n) => {
                let dot = &n == b".          " || &n == b"..         ";
                if dot {
                    return;
                }
                match self.name_lookup_pub(dh.vol, dh.dir, &n) {
                    Some(MNode::Dir(_)) => {
                        state = "directory";
                        errs.push("DirAlreadyExists");
                        ok_allowed = false;
                    }
                    Some(MNode::File(_)) => {
                        state = "file";
                        errs.push("FileAlreadyExists");
                        ok_allowed = false;
                    }
                    Some(MNode::Other) => return,
                    None => {
                        state = "missing";
                        let need = match self.entry_space_need(dh.vol, dh.dir) {
                            Some(g) => Some(g + 1),
                            None => None,
                        };
                        let free = self.free_clusters(dh.vol);
                        match need {
                            None => {
                                errs.push("NotEnoughSpace");
                                errs.push("DiskFull");
                                ok_allowed = false;
                                state = "root-full";
                            }
                            Some(k) if free < k => {
                                errs.push("NotEnoughSpace");
                                errs.push("DiskFull");
                                ok_allowed = false;
                                state = "no-space";
                            }
                            _ => {}
                        }
                        allow.new_slot = Some((dh.vol, dh.dir, n));
                        for c in self.dir_chain(dh.vol, dh.dir) {
                            allow.fat_clusters.insert(c);
                        }
                    }
                }
            }
        }
        if !ok_allowed {
            allow = Allow { vol: Some(dh.vol), read_only: true, refused: true, ..Default::default() };
        }
        let now = self.clock.now();
        let _ = now;
        let nm = Name::Str(name.to_string());
        let r = got(self.call(|fs| fs.make_dir(h, &nm, fl)));
        let gn = r.name();
        let ok = self.judge(opk, state, gn, name, ok_allowed, &errs);
        if !ok && is_space_err(gn) {
            self.blame_stale_info(dh.vol, opk, gn);
        }
        if gn != "Ok" {
            allow = Allow { vol: Some(dh.vol), read_only: true, refused: true, ..Default::default() };
            if ok && is_space_err(gn) {
                self.probes.hit("mkdir_refused_no_space");
            }
        }
        if ok && gn == "Ok" {
            let n = parsed.unwrap();
            let ent = self.locate_entry_after(dh.vol, dh.dir, &n);
            match ent {
                Some(e) if e.is_dir() && e.cluster >= 2 => {
                    allow.slots.push((e.block, e.off));
                    let id = self.vols[dh.vol].next_dir;
                    self.vols[dh.vol].next_dir += 1;
                    let v = &mut self.vols[dh.vol];
                    v.dirs.insert(id, MDir { parent: Some(dh.dir), loc: DirLoc::Cluster(e.cluster), entries: Default::default(), touched: true, init_slots: Vec::new() });
                    let d = v.dirs.get_mut(&dh.dir).unwrap();
                    d.entries.insert(n, MNode::Dir(id));
                    d.touched = true;
                    self.mutating_ok += 1;
                    self.probes.hit("dir_created");
                }
                other => {
                    self.violate("C03", "mkdir-entry", "", format!("after make_dir the medium shows {:?}", other.map(|e| (e.attr, e.cluster))));
                    self.abort("mkdir entry");
                }
            }
        }
        self.finish(opk, &allow, Some(dh.vol));
    }

    pub fn op_stale_file(&mut self, fs_slot: u8, m: u8) {
        let opk = "stale_file";
        let h = match self.fslots.get(fs_slot as usize).and_then(|s| if s.cur.is_none() { s.dead } else { None }) {
            Some(h) => h,
            None => return,
        };
        if self.any_open_handle_has(handle_num(&h)) {
            return;
        }
        let mut buf = [0u8; 16];
        // variant (m >= 64): zero-length transfers - a closed handle is a closed handle
        let zero = m >= 64;
        let m = m % 64;
        let (name, r): (&'static str, Got<()>) = match m % 10 {
            0 => ("read", got(self.call(|fs| fs.read(h, if zero { &mut buf[..0] } else { &mut buf[..] }, 0).map(|_| ())))),
            1 => ("write", got(self.call(|fs| fs.write(h, if zero { &b""[..] } else { &b"stale"[..] }, 0)))),
            2 => ("close_file", got(self.call(|fs| fs.close_file(h, 0)))),
            3 => ("flush_file", got(self.call(|fs| fs.flush_file(h, 0)))),
            4 => ("file_eof", got(self.call(|fs| fs.eof(h, 0).map(|_| ())))),
            5 => ("file_seek_from_start", got(self.call(|fs| fs.seek_start(h, 0, 0).map(|_| ())))),
            6 => ("file_seek_from_current", got(self.call(|fs| fs.seek_cur(h, 0, 0).map(|_| ())))),
            7 => ("file_seek_from_end", got(self.call(|fs| fs.seek_end(h, 0, 0).map(|_| ())))),
            8 => ("file_length", got(self.call(|fs| fs.length(h, 0).map(|_| ())))),
            _ => {
                if zero {
                    ("stream_position", got(self.call(|fs| fs.stream_pos(h).map(|_| ()))))
                } else {
                    ("file_offset", got(self.call(|fs| fs.offset(h, 0).map(|_| ()))))
                }
            }
        };
        let gn = r.name();
        self.judge(opk, name, gn, "closed file handle", false, &["BadHandle"]);
        self.probes.hit("stale_handle_used");
        let a = Allow { read_only: true, ..Default::default() };
        self.finish(opk, &a, None);
    }
}
