//! Device-fault enumeration (C11): a history is executed once fault-free to count its
//! device calls; then it is re-executed from the start once per device-call index with exactly
//! that call failing (reads get a scribbled buffer; writes are lost, or applied but reported
//! failed), plus "device dead from call i until the API call returns" windows.

use crate::batch::CaseOutcome;
use crate::clock::SimClock;
use crate::disk::{FaultKind, SimDisk};
use crate::fs::make_fs;
use crate::gen::{profile_for, Gen};
use crate::mkfs::build_device;
use crate::ops::{Fault, Op, Scenario};
use crate::rng::Rng;
use crate::runner::gen_header;
use crate::world::*;

/// One execution of `sc.ops` with `sc.faults` / `sc.dead_from`. Returns violations (C11 only are
/// of interest), whether a fault fired, and the event hash.
pub struct FaultRun {
    pub viols: Vec<Violation>,
    pub fired: u64,
    pub fired_read: u64,
    pub fired_write_lost: u64,
    pub fired_write_applied: u64,
    pub dead_calls: u64,
    pub ev_hash: u64,
    pub dev_calls: u64,
    pub call_kinds: Vec<bool>,
    pub ops_done: Vec<Op>,
    pub api_calls: u64,
    pub probes: Probes,
}

pub fn exec(sc: &Scenario, gen: Option<(Rng, &str)>) -> FaultRun {
    let (img, outs) = build_device(&sc.dev);
    let disk = SimDisk::new(img);
    {
        let mut st = disk.st.borrow_mut();
        for f in &sc.faults {
            st.faults.insert(f.at, if f.applied { FaultKind::FailApplied } else { FaultKind::Fail });
        }
        st.dead_from = sc.dead_from;
    }
    let clock = SimClock::new(sc.clock0);
    let fs = make_fs(sc.limits, &disk, &clock, sc.id_offset);
    let mut w = World::new(&disk, &clock, fs, &sc.dev, &outs);
    w.faulty = !sc.faults.is_empty() || sc.dead_from.is_some();
    let mut g = gen.map(|(rng, prof)| Gen::new(rng, profile_for(prof), sc.clock0));
    let mut ops_done: Vec<Op> = Vec::new();
    let mut api_calls = 0;
    let mut i = 0usize;
    loop {
        if w.aborted.is_some() {
            break;
        }
        let op = match g.as_mut() {
            Some(g) => {
                if ops_done.len() >= g.target_len {
                    break;
                }
                match g.next(&w) {
                    Some(op) => op,
                    None => break,
                }
            }
            None => {
                if i >= sc.ops.len() {
                    break;
                }
                sc.ops[i].clone()
            }
        };
        w.op_idx = i;
        w.step(&op);
        if op.is_api_call() {
            api_calls += 1;
        }
        ops_done.push(op);
        i += 1;
    }
    let dev_calls_ops = disk.calls();
    let call_kinds: Vec<bool> = disk.st.borrow().log.iter().map(|e| e.write).collect();
    if let Some(fop) = w.fault_op {
        // the device works again from here on
        {
            let mut st = disk.st.borrow_mut();
            st.dead_from = None;
            st.faults.clear();
        }
        let op = ops_done[fop].clone();
        // what the caller does next varies with the fault position: use everything first, retry a failed flush at once, or just close
        let style = (sc.faults.first().map(|f| f.at).or(sc.dead_from).unwrap_or(0) + sc.clock0) % 3;
        w.after_fault(&op, style as u8);
    } else if w.faulty && w.aborted.is_none() {
        // the fault index was never reached (cannot happen when enumerating indices of the reference run) or it fired outside a judged call
        if disk.fired_total() > 0 {
            w.violate("C11", "fault-fired-unnoticed", "", "a device call failed but no API call reported it".into());
        }
    }
    let st = disk.st.borrow();
    FaultRun {
        viols: w.viols.clone(),
        fired: st.fired.len() as u64 + st.stats.dead_calls,
        fired_read: st.stats.faults_fired_read,
        fired_write_lost: st.stats.faults_fired_write_lost,
        fired_write_applied: st.stats.faults_fired_write_applied,
        dead_calls: st.stats.dead_calls,
        ev_hash: w.ev_hash,
        dev_calls: dev_calls_ops,
        call_kinds,
        ops_done,
        api_calls,
        probes: w.probes.clone(),
    }
}

impl<'a> World<'a> {
    /// After the call that hit the fault: (3) retry it if it is read-only, (2) use and close every
    /// handle, (4) judge the medium, relaxing only the object the failed call operated on.
    pub fn after_fault(&mut self, op: &Op, style: u8) {
        self.aborted = None;
        self.faulty = false; // faults have stopped: ordinary oracles apply again, re-labelled below
        let before = self.viols.len();
        // which object did the failed call operate on
        let involved: Option<(usize, u32, [u8; 11])> = match op {
            Op::OpenFile { ds, name, .. } | Op::Delete { ds, name, .. } | Op::MkDir { ds, name, .. } => self.dslots.get(*ds as usize).and_then(|s| s.cur.as_ref()).and_then(|(_, dh)| crate::names::sfn_parse(name).ok().map(|n| (dh.vol, dh.dir, n))),
            Op::Write { fs, .. } | Op::Flush { fs, .. } | Op::CloseFile { fs, .. } | Op::Read { fs, .. } => self.fslots.get(*fs as usize).and_then(|s| s.cur.as_ref()).map(|(_, fh)| (fh.vol, fh.dir, fh.name)),
            _ => None,
        };
        let read_only_op = match op {
            Op::Find { .. } | Op::Iterate { .. } | Op::OpenDir { .. } | Op::OpenRoot { .. } | Op::Read { .. } | Op::Label { .. } | Op::OpenVolume { .. } => true,
            Op::OpenFile { mode, .. } => *mode % 6 == 0,
            _ => false,
        };
        let mut newly_relaxed = false;
        if !read_only_op {
            if let Some(k) = involved {
                newly_relaxed = self.relax.insert(k);
                if let Some(d) = self.vols[k.0].dirs.get_mut(&k.1) {
                    d.touched = true;
                }
            }
        }
        // a failed close has released the handle in any case; a failed open has not produced one
        if let Op::CloseFile { fs, .. } = op {
            if let Some((h, fh)) = self.fslots[*fs as usize].cur.take() {
                self.fslots[*fs as usize].dead = Some(h);
                if let Some(f) = self.file_mut(fh.vol, fh.dir, &fh.name) {
                    f.open = None;
                }
            }
        }
        if let Op::CloseVolume { vs, .. } = op {
            // close_volume may or may not have taken effect: probe
            if let Some((h, vh)) = self.vslots[*vs as usize].cur.clone() {
                let r = crate::exec::got(self.call(|fs| fs.open_root_dir(h, 0)));
                match r {
                    crate::exec::Got::Ok(d) => {
                        let _ = self.call(|fs| fs.close_dir(d, 0));
                    }
                    _ => {
                        self.vslots[*vs as usize].cur = None;
                        self.vslots[*vs as usize].dead = Some(h);
                        self.vols[vh.vol].mounted = false;
                    }
                }
            }
        }
        // (3) retry a read-only call: it must now give the answer the model expects
        if read_only_op {
            if let Op::Read { fs, .. } = op {
                // the failed read may have consumed part of the range: take the library's position
                if let Some((h, _)) = self.fslots[*fs as usize].cur.clone() {
                    if let crate::exec::Got::Ok(o) = crate::exec::got(self.call(|f| f.offset(h, 0))) {
                        if let Some((_, x)) = self.fslots[*fs as usize].cur.as_mut() {
                            if o >= x.off {
                                x.off = o;
                            } else {
                                self.violate("C11", "offset-moved-backwards-by-failed-read", "", String::new());
                            }
                        }
                    }
                }
            }
            self.probes.hit("readonly_call_retried_after_fault");
            self.mark();
            self.pending_eff = None;
            self.step(op);
        }
        // style 1: the natural reaction to a failed flush is to flush again, with nothing in between
        if style == 1 {
            if let Op::Flush { fs, .. } = op {
                if let Some((h, _)) = self.fslots[*fs as usize].cur.clone() {
                    self.probes.hit("failed_flush_retried_at_once");
                    match crate::exec::got(self.call(|f| f.flush_file(h, 0))) {
                        crate::exec::Got::Panic(p) => self.violate("C11", "handle-unusable-after-fault", "file:flush-retry", p.msg),
                        crate::exec::Got::Err(e) => self.violate("C11", "flush-retry-failed-on-a-healthy-device", "", format!("{:?}", e)),
                        _ => {}
                    }
                }
            }
        }
        // the object the failed call operated on may hold old, new or mixed contents - but using it must
        // neither panic nor hang
        if style != 0 {
            self.probes.hit("handles_closed_directly_after_fault");
        }
        if let (Some((vol, dir, name)), 0) = (involved, style) {
            let ds = self.dslots.iter().position(|s| s.cur.as_ref().map_or(false, |(_, d)| d.vol == vol && d.dir == dir));
            let free_f = self.fslots.iter().position(|s| s.cur.is_none());
            if let (Some(ds), Some(_), Some(nm)) = (ds, free_f, crate::names::sfn_to_string(&name)) {
                let dh = self.dslots[ds].cur.as_ref().unwrap().0;
                let r = self.call(|f| {
                    if let Ok(h) = f.open_file(dh, &crate::fs::Name::Str(nm.clone()), embedded_sdmmc::Mode::ReadOnly, 0) {
                        let mut buf = vec![0u8; 4096];
                        let mut total = 0usize;
                        loop {
                            match f.read(h, &mut buf, 0) {
                                Ok(0) | Err(_) => break,
                                Ok(n) => total += n,
                            }
                            if total > 8_000_000 {
                                break;
                            }
                        }
                        let _ = f.close_file(h, 0);
                    }
                });
                if let Err(p) = r {
                    self.violate("C11", if p.hang { "hang-using-the-object-of-the-failed-call" } else { "panic-using-the-object-of-the-failed-call" }, op.kind(), p.msg);
                }
                self.probes.hit("object_of_failed_call_used_afterwards");
            }
        }
        // (2) every handle can still be used and closed
        let files: Vec<u8> = (0..self.fslots.len() as u8).filter(|&i| self.fslots[i as usize].cur.is_some()).collect();
        for fsl in files {
            let (h, fh) = self.fslots[fsl as usize].cur.clone().unwrap();
            let relaxed = self.relax.contains(&(fh.vol, fh.dir, fh.name));
            let mut one = [0u8; 1];
            let r0 = if style == 0 { self.call(|f| f.seek_start(h, 0, 0).and_then(|_| f.read(h, &mut one, 0))).map(|_| ()) } else { Ok(()) };
            if r0.is_err() {
                let lp = self.last_panic.clone();
                self.violate("C11", "handle-unusable-after-fault", "file:read", lp);
            }
            let r = crate::exec::got(self.call(|f| f.close_file(h, 0)));
            match r {
                crate::exec::Got::Panic(p) => self.violate("C11", "handle-unusable-after-fault", "file:close", p.msg),
                crate::exec::Got::Err(e) if !relaxed => self.violate("C11", "close-failed-after-fault", "file", format!("{:?}", e)),
                crate::exec::Got::Ok(_) => {
                    // a flush failed, every write before it had succeeded, and now the close of that file has
                    // succeeded on a healthy device: the medium has to hold the file (C02's clause; the relaxation
                    // for "the object of the failed call" ends here)
                    if newly_relaxed && matches!(op, Op::Flush { .. }) && involved == Some((fh.vol, fh.dir, fh.name)) {
                        self.relax.remove(&(fh.vol, fh.dir, fh.name));
                        self.probes.hit("file_of_a_failed_flush_closed_and_judged");
                    }
                }
                _ => {}
            }
            let r2 = crate::exec::got(self.call(|f| f.close_file(h, 0)));
            if r2.name() != "BadHandle" {
                self.violate("C11", "handle-not-released-after-fault", "file", format!("second close returned {}", r2.name()));
            }
            if let Some(f) = self.file_mut(fh.vol, fh.dir, &fh.name) {
                f.open = None;
                if fh.dirty || fh.ever_dirty {
                    f.disk_size = match &f.data {
                        Content::Mem(d) => d.len() as u32,
                        Content::Lazy(n) => *n,
                    };
                    f.clean = true;
                }
            }
            self.fslots[fsl as usize].cur = None;
            self.fslots[fsl as usize].dead = Some(h);
        }
        let dirs: Vec<u8> = (0..self.dslots.len() as u8).filter(|&i| self.dslots[i as usize].cur.is_some()).collect();
        for d in dirs {
            let (h, _) = self.dslots[d as usize].cur.clone().unwrap();
            let r = crate::exec::got(self.call(|f| f.iterate(h, 0, &mut |_| {})));
            if let crate::exec::Got::Panic(p) = r {
                self.violate("C11", "handle-unusable-after-fault", "dir:iterate", p.msg);
            }
            let r = crate::exec::got(self.call(|f| f.close_dir(h, 0)));
            if r.name() != "Ok" {
                self.violate("C11", "close-failed-after-fault", "dir", r.name().to_string());
            }
            let r2 = crate::exec::got(self.call(|f| f.close_dir(h, 0)));
            if r2.name() != "BadHandle" {
                self.violate("C11", "handle-not-released-after-fault", "dir", r2.name().to_string());
            }
            self.dslots[d as usize].cur = None;
            self.dslots[d as usize].dead = Some(h);
        }
        let vols: Vec<u8> = if self.swallowed { Vec::new() } else { (0..self.vslots.len() as u8).filter(|&i| self.vslots[i as usize].cur.is_some()).collect() };
        for v in vols {
            let (h, vh) = self.vslots[v as usize].cur.clone().unwrap();
            let r = crate::exec::got(self.call(|f| f.close_volume(h, 0)));
            if r.name() != "Ok" {
                let lp = self.last_panic.clone();
                self.violate("C11", "close-failed-after-fault", "volume", format!("{} {}", r.name(), lp));
            }
            let r2 = crate::exec::got(self.call(|f| f.close_volume(h, 0)));
            if r2.name() != "BadHandle" {
                self.violate("C11", "handle-not-released-after-fault", "volume", r2.name().to_string());
            }
            self.vslots[v as usize].cur = None;
            self.vols[vh.vol].mounted = false;
        }
        self.pending_eff = None;
        let _ = self.absorb_log();
        self.mark();
        // (4) the medium: no duplicate names anywhere, uninvolved files intact
        self.faulty = true; // (skips the fresh-mount comparison, keeps the reader-vs-model comparison)
        self.aborted = None;
        self.checkpoint(true);
        self.faulty = false;
        // everything found after the fault is a C11 matter
        for v in self.viols.iter_mut().skip(before) {
            if v.prop != "C11" {
                v.oracle = format!("after-fault/{}/{}", v.prop, v.oracle);
                v.prop = "C11";
            }
        }
    }
}

pub fn fault_case(seed: u64, tier_budget: usize) -> CaseOutcome {
    let mut rng = Rng::new(seed);
    let mut p = profile_for("small");
    p.max_len = 16;
    p.min_len = 4;
    let header = gen_header(&mut rng, &p);
    let reference = exec(&header, Some((rng.clone(), "fault11")));
    let mut sc = header.clone();
    sc.ops = reference.ops_done.clone();
    fault_enumerate(&sc, &reference, tier_budget, seed)
}

pub fn fault_enumerate(sc: &Scenario, reference: &FaultRun, budget: usize, seed: u64) -> CaseOutcome {
    let mut out = CaseOutcome::default();
    out.probes = reference.probes.clone();
    out.api_calls = reference.api_calls;
    out.dev_calls = reference.dev_calls;
    out.case = serde_json::to_value(sc).unwrap();
    out.foreign_abort = reference.viols.iter().any(|v| v.oracle == "result");
    let n = reference.dev_calls;
    let mut h = reference.ev_hash;
    let mut evals = 0u64;
    let mut fired = (0u64, 0u64, 0u64, 0u64);
    // every index once; writes in both flavours; when the history is long, a seeded subset of indices
    // (index, applied, dead-window); applied && dead-window together mean "calls i and i+2 both fail" (two separate faults)
    let mut plan: Vec<(u64, bool, bool)> = Vec::new();
    for i in 0..n {
        let is_write = reference.call_kinds.get(i as usize).copied().unwrap_or(false);
        plan.push((i, false, false));
        if is_write {
            plan.push((i, true, false));
        }
        if i % 5 == 2 {
            plan.push((i, false, true));
        }
        if i % 7 == 3 {
            plan.push((i, true, true));
        }
    }
    if plan.len() > budget {
        let mut r = Rng::new(seed ^ 0xFA17);
        // keep a seeded sample, but always in index order
        let mut keep: Vec<(u64, bool, bool)> = Vec::new();
        for _ in 0..budget {
            let k = r.usize_below(plan.len());
            keep.push(plan[k]);
        }
        keep.sort();
        keep.dedup();
        plan = keep;
        out.probes.hit("fault_points_sampled_not_enumerated");
    }
    for (i, applied, dead) in plan {
        let mut c = sc.clone();
        if dead && applied {
            c.faults = vec![Fault { at: i, applied: false }, Fault { at: i + 2, applied: true }];
        } else if dead {
            c.dead_from = Some(i);
        } else {
            c.faults = vec![Fault { at: i, applied }];
        }
        let r = exec(&c, None);
        evals += 1;
        fired.0 += r.fired_read;
        fired.1 += r.fired_write_lost;
        fired.2 += r.fired_write_applied;
        fired.3 += r.dead_calls;
        crate::rng::fnv_add(&mut h, &r.ev_hash.to_le_bytes());
        if r.fired == 0 {
            out.probes.hit("fault_point_not_reached");
        }
        for k in ["readonly_call_retried_after_fault", "failed_flush_retried_at_once", "handles_closed_directly_after_fault", "object_of_failed_call_used_afterwards", "file_of_a_failed_flush_closed_and_judged"] {
            if let Some(n) = r.probes.m.get(k) {
                out.probes.add(k, *n);
            }
        }
        for mut v in r.viols.into_iter().filter(|v| v.prop == "C11") {
            v.detail = format!("{} [fault at device call {}{}{}]", v.detail, i, if applied && !dead { ", write applied" } else { "" }, if dead && applied { " and at the call after next" } else if dead { ", device dead until the call returns" } else { "" });
            if out.viols.len() < 8 {
                // the failing fault plan travels with the case
                if out.viols.is_empty() {
                    out.case = serde_json::to_value(&c).unwrap();
                }
                out.viols.push(v);
            }
        }
        if !out.viols.is_empty() {
            break;
        }
    }
    out.evaluations = evals.max(1);
    out.nontrivial = evals > 0 && (fired.0 + fired.1 + fired.2 + fired.3) > 0;
    out.ev_hash = h;
    out.faults.insert("read_error_with_scribbled_buffer".into(), fired.0);
    out.faults.insert("write_error_lost".into(), fired.1);
    out.faults.insert("write_error_applied".into(), fired.2);
    out.faults.insert("device_dead_calls".into(), fired.3);
    out
}

/// Replay: a scenario with an explicit fault plan is one execution; without one it is the whole enumeration.
pub fn fault_replay(sc: &Scenario) -> CaseOutcome {
    if sc.faults.is_empty() && sc.dead_from.is_none() {
        let mut plain = sc.clone();
        plain.faults.clear();
        let reference = exec(&plain, None);
        return fault_enumerate(sc, &reference, usize::MAX, 0);
    }
    let r = exec(sc, None);
    let mut out = CaseOutcome::default();
    out.case = serde_json::to_value(sc).unwrap();
    out.ev_hash = r.ev_hash;
    out.evaluations = 1;
    out.nontrivial = r.fired > 0;
    out.viols = r.viols.into_iter().filter(|v| v.prop == "C11").collect();
    out
}
